"""Case family of C09: concurrent inserts at ONE position of a sequence, optionally followed by a removal.

Both sides insert items at the same position of the same sequence; the inserted runs are related in a way that the
insert splitter can resolve without a conflict (identical runs, one run extending the other at the front / in the middle /
at the end, each side adding an item of its own around a shared run) or cannot (unrelated runs); and the item(s) right
after the insertion point are removed by nobody, by local only, by remote only or by both.  That is every chunk shape
A/A, AR/A, A/AR, AR/AR the list merger routes to its concurrent-insert code, for every sequence a notebook has: the cells
(with and without ids), the lines of a source, the outputs of a code cell, the lines of a stream text, a list in cell
metadata.  Each side's full change set (inserts AND the trailing removal) has to be recoverable from the decisions.

Content is built from pairwise dissimilar templates so that the differ reports the insert and the removal as such (an
inserted item that resembles the removed one would be reported as a modification and never reach the insert code)."""
import copy

LEVELS = ('cells4', 'cells5', 'lines', 'outputs', 'text', 'mdlist')
RELATIONS = ('same', 'local_more', 'remote_more', 'both_more', 'unrelated')
REMOVALS = ('none', 'local', 'remote', 'both')

# pairwise dissimilar cell sources (code / markdown alternate by index parity at use)
_CODE = [
    'import numpy as np\nimport pandas as pd\n',
    'data = np.loadtxt("measurements-%d.txt")\nprint(data.shape)\n',
    'def scale(values, by=%d):\n    return [v * by for v in values]\n',
    'frame = pd.read_csv("table-%d.csv")\nframe.describe()',
    'for i in range(%d):\n    total += i ** 2\nprint(total)\n',
    'class Reader%d(object):\n    def __init__(self, path):\n        self.path = path\n',
    'fig, ax = plt.subplots(figsize=(%d, 4))\nax.plot(xs, ys)\nfig.savefig("out.png")',
    'assert len(results) == %d, "unexpected number of results"\n',
    'with open("log-%d.txt", "w") as handle:\n    handle.write(report)\n',
    'model = fit(train, epochs=%d)\nscore = model.evaluate(test)\nscore',
    '%%%%time\nsolve(matrix, tolerance=1e-%d)\n',
    'try:\n    value = lookup[key%d]\nexcept KeyError:\n    value = None\n',
]
_MD = [
    '# Measurements of year %d\n\nLoaded from the archive.\n',
    'The *second* part (%d) explains how the scaling works.',
    '## Results\n\n- item one\n- item %d\n',
    '> quoted remark number %d about the plots\n',
    'See [the manual](https://example.org/doc/%d) for details.\n',
    '### Appendix %d\n\n| a | b |\n|---|---|\n| 1 | 2 |\n',
]
_LINE = ['x = %d\n', 'import os, sys  # %d\n', 'print("value", y%d)\n', 'result = compute(a, b, n=%d)\n', '# note %d: check units\n',
         'while queue%d:\n', '    queue.pop()\n', 'names = sorted(set(names))[:%d]\n', 'return total / max(count, %d)\n',
         'z%d = None\n', 'del cache["k%d"]\n', 'raise ValueError("bad input %d")\n', 'w = [1, 2, %d]\n', 'pass  # %d\n']
_TAG = ['alpha', 'beta', 'gamma', 'delta', 'epsilon', 'zeta', 'eta', 'theta', 'iota', 'kappa', 'lambda', 'mu', 'nu', 'xi']


def _take(r, pool):
    """next unused template; a synthetic, still unique one when the pool is exhausted"""
    if pool: return pool.pop()
    return 'unique_%04x = %%d\n' % r.randrange(16 ** 4)


def _fill(r, tpl):
    return tpl % r.randint(2, 97) if '%d' in tpl.replace('%%', '') else tpl.replace('%%', '%')


class _Items(object):
    """fresh, pairwise dissimilar items of one level"""
    def __init__(self, r, level):
        self.r = r; self.level = level; self.n = 0
        self.code = list(_CODE); self.md = list(_MD); self.line = list(_LINE); self.tag = list(_TAG)
        for p in (self.code, self.md, self.line, self.tag): r.shuffle(p)

    def cell(self, minor, kind=None):
        r = self.r; self.n += 1
        if kind is None: kind = 'code' if (not self.md or r.random() < 0.65) else 'markdown'
        if kind == 'code':
            c = {'cell_type': 'code', 'metadata': {}, 'source': _fill(r, _take(r, self.code)), 'execution_count': None, 'outputs': []}
        else:
            c = {'cell_type': 'markdown', 'metadata': {}, 'source': _fill(r, _take(r, self.md))}
        if minor >= 5: c['id'] = 'c%02d-%04x' % (self.n, r.randrange(16 ** 4))
        return c

    def output(self):
        r = self.r; self.n += 1
        k = self.n % 3
        if k == 0: return {'output_type': 'stream', 'name': r.choice(['stdout', 'stderr']), 'text': _fill(r, _take(r, self.code))}
        if k == 1: return {'output_type': 'display_data', 'data': {'text/plain': _fill(r, _take(r, self.md))}, 'metadata': {}}
        return {'output_type': 'error', 'ename': r.choice(['ValueError', 'KeyError', 'ZeroDivisionError']) + str(self.n),
                'evalue': _fill(r, 'problem %d'), 'traceback': [_fill(r, _take(r, self.line))]}

    def item(self):
        if self.level == 'cells4': return self.cell(self.minor)
        if self.level == 'cells5': return self.cell(5)
        if self.level in ('lines', 'text'): return _fill(self.r, _take(self.r, self.line))
        if self.level == 'outputs': return self.output()
        return self.tag.pop() if self.tag else 'tag%04x' % self.r.randrange(16 ** 4)


def _runs(r, fresh, relation, ncommon):
    """-> (local run, remote run) inserted at the same position"""
    common = [fresh() for _ in range(ncommon)]
    def around(run, extra):
        where = r.choice(['front', 'end'] + (['middle'] if len(run) >= 2 else []))
        i = {'front': 0, 'end': len(run)}.get(where, len(run) // 2)
        return run[:i] + [extra] + run[i:]
    if relation == 'same': return list(common), list(common)
    if relation == 'local_more': return around(common, fresh()), list(common)
    if relation == 'remote_more': return list(common), around(common, fresh())
    if relation == 'both_more': return [fresh()] + list(common), list(common) + [fresh()]
    return [fresh() for _ in range(ncommon)], [fresh() for _ in range(ncommon)]      # unrelated -> conflict


def _embed(r, level, minor, seqs, items):
    """three notebooks whose sequence of the given level is seqs[0..2]"""
    def nb(cells): return {'cells': cells, 'metadata': {}, 'nbformat': 4, 'nbformat_minor': minor}
    if level in ('cells4', 'cells5'):
        return [nb(copy.deepcopy(s)) for s in seqs]
    lead = items.cell(minor, 'markdown' if r.random() < 0.5 else 'code')
    trail = items.cell(minor, 'code') if r.random() < 0.5 else None
    host = items.cell(minor, 'code' if level in ('outputs', 'text') else None)
    out = []
    for s in seqs:
        c = copy.deepcopy(host)
        if level == 'lines':
            c['source'] = ''.join(s)
        elif level == 'outputs':
            c['outputs'] = copy.deepcopy(s); c['execution_count'] = 3
        elif level == 'text':
            c['outputs'] = [{'output_type': 'stream', 'name': 'stdout', 'text': ''.join(s)}]; c['execution_count'] = 1
        else:
            c['metadata'] = {'tags': list(s)}
        out.append(nb([copy.deepcopy(x) for x in (lead, c, trail) if x is not None]))
    return out


def make(r, level, relation, removal, before=None, after=None, ncommon=None, rmlen=None):
    """one triple (name, base, local, remote)"""
    minor = 5 if level == 'cells5' else r.choice([3, 4, 4]) if level == 'cells4' else r.choice([4, 4, 5])
    items = _Items(r, level); items.minor = minor
    before = r.choice([0, 1, 1, 2]) if before is None else before
    rmlen = (0 if removal == 'none' else r.choice([1, 1, 1, 2])) if rmlen is None else rmlen
    after = r.choice([0, 1, 1, 2]) if after is None else after           # items kept after the removed ones
    ncommon = r.choice([1, 1, 2]) if ncommon is None else ncommon
    if level in ('lines', 'text') and before + after < 5:
        # the text around the edit must keep the host cell / output recognisably the same item on all three sides, else the
        # whole item counts as replaced; untouched ends (insert at the very start, removal reaching the end) are kept
        pad = 5 - (before + after)
        if (before == 0) != (after == 0): grow_before = after == 0
        else: grow_before = r.random() < 0.5
        if grow_before: before += pad
        else: after += pad
    pre =[items.item() for _ in range(before)]
    victims = [items.item() for _ in range(rmlen)]
    post = [items.item() for _ in range(after)]
    L, R = _runs(r, items.item, relation, ncommon)
    base = pre + victims + post
    local = pre + L + ([] if removal in ('local', 'both') else victims) + post
    remote = pre + R + ([] if removal in ('remote', 'both') else victims) + post
    b, l, rm = _embed(r, level, minor, [base, local, remote], items)
    name = 'agreedins:%s:%s:rm-%s@4.%d' % (level, relation, removal, minor)
    return (name, b, l, rm)


def agreed_insert_triples(r, tier):
    """systematic part: every level x {identical, one run extends the other} x {removal by local, remote, both};
    sampled part: the remaining shapes (no removal, both sides extend, unrelated runs = conflict) and sizes"""
    out = []
    for level in LEVELS:
        for relation in ('same', 'local_more', 'remote_more'):
            for removal in ('local', 'remote', 'both'):
                out.append(make(r, level, relation, removal))
    for _ in range(12 if tier == 'quick' else 150):
        out.append(make(r, r.choice(LEVELS), r.choice(RELATIONS), r.choice(REMOVALS),
                        before=r.choice([0, 1, 2, 3]), after=r.choice([0, 0, 1, 2, 3]), ncommon=r.choice([1, 2, 3])))
    return out


# ---------------------------------------------------------------------------------------------------------------------
# Family 2: one side DELETES a part of the notebook, the other side only makes TRANSIENT edits to that part.
#
# With transients ignored (the default, also what the web tool gets) the merger settles these without a conflict in favour
# of the deletion -- in three places: a mapping key (cell metadata flag collapsed / scrolled / autoscroll removed vs its
# value changed), a cell (cell deleted vs re-run: execution counts and flags only), an output (execute_result removed vs
# its execution_count changed).  The losing side's edit does not show in the merged notebook, so only the choose-a-side
# clauses can tell whether the decision still records it.  Varied: the level, which side deletes, the key(s) and values,
# several keys at once incl. crossed roles (local deletes A and changes B, remote changes A and deletes B), unrelated
# one-sided edits next to it on either side, cell kind / position / count, equal, pairwise different and upgraded (4.x ->
# 4.5, ids on one side only) minors; controls where the edit is not (only) transient, which must end as a conflict.
TD_LEVELS = ('key', 'cell', 'output')
TD_FLAGS = {'collapsed': [True, False], 'scrolled': [True, False, 'auto'], 'autoscroll': [True, False, 'auto']}
TD_CONTROL = {'name': ['intro', 'setup', 'plots'], 'hide_input': [True, False], 'editable': [True, False]}
TD_MINORS = ('same', 'mixed', 'upgrade')


def _td_minors(r, mode):
    """-> (base, local, remote) minors"""
    if mode == 'same':
        m = r.choice([0, 1, 2, 3, 4, 4, 5, 5]); return (m, m, m)
    if mode == 'mixed': return tuple(r.sample([0, 1, 2, 3, 4], 3))
    b = r.choice([0, 2, 3, 4, 4]); o = r.choice([b, r.choice([0, 1, 2, 3, 4])])
    return (b, 5, o) if r.random() < 0.5 else (b, o, 5)


def _td_other(r, domain, v):
    return r.choice([x for x in domain if x != v])


def _td_side(base_cells, minor, bminor, edit):
    """one side: a copy of the base cells (each carrying its base index in '_k'), edited, ids given on an upgrade"""
    cells = copy.deepcopy(base_cells)
    edit(cells)
    for c in cells:
        k = c.pop('_k')
        if minor >= 5 and bminor < 5: c['id'] = 'cell-%02d' % k
    return {'cells': cells, 'metadata': {}, 'nbformat': 4, 'nbformat_minor': minor}


def make_transient_vs_delete(r, level, deleter, minors='same', nkeys=1, crossed=False, control=False, keys=None):
    """one triple (name, base, local, remote); `deleter` in ('local', 'remote') is the side that deletes"""
    bm, lm, rmm = _td_minors(r, minors)
    items = _Items(r, 'cells4'); items.minor = bm
    ncells = r.choice([1, 2, 2, 3]); pos = r.randrange(ncells)
    code_target = level != 'key' or r.random() < 0.7
    cells = [items.cell(bm, ('code' if code_target else 'markdown') if i == pos else None) for i in range(ncells)]
    for i, c in enumerate(cells): c['_k'] = i
    tgt = cells[pos]
    n0 = r.randint(1, 30); n1 = n0 + r.randint(1, 9)
    tag = []                                   # what was varied, for the name

    def find(cs):
        for c in cs:
            if c['_k'] == pos: return c

    def edit_other_cell(cs):                   # an unrelated one-sided edit elsewhere (or a notebook-safe tag when alone)
        others = [c for c in cs if c['_k'] != pos]
        if others: others[0]['metadata']['note'] = 'reviewed'
        elif find(cs) is not None: find(cs)['metadata']['tags'] = ['reviewed']

    del_edits = []; ed_edits = []              # lists of functions on the side's cell list
    if level == 'key':
        domain = dict(TD_CONTROL if control else TD_FLAGS)
        keys = list(keys) if keys else r.sample(sorted(domain), min(nkeys, len(domain)))
        if r.random() < 0.5: tgt['metadata']['tags'] = ['keep']
        if code_target and r.random() < 0.5: tgt['execution_count'] = n0
        for i, k in enumerate(keys):
            old = r.choice(domain[k]); new = _td_other(r, domain[k], old)
            tgt['metadata'][k] = old
            drop = lambda cs, k=k: find(cs)['metadata'].pop(k)
            ch = lambda cs, k=k, new=new: find(cs)['metadata'].__setitem__(k, new)
            swapped = crossed and i >= 1       # crossed roles from the second key on
            (ed_edits if swapped else del_edits).append(drop)
            (del_edits if swapped else ed_edits).append(ch)
        tag.append('+'.join(keys) + ('-crossed' if crossed and len(keys) > 1 else ''))
        x = r.choice(['none', 'none', 'other', 'name'])
        if x == 'other': del_edits.append(edit_other_cell)
        if x == 'name' and 'name' not in keys: del_edits.append(lambda cs: find(cs)['metadata'].__setitem__('name', 'kept-cell'))
        y = r.choice(['none', 'none', 'rerun', 'label'])
        if y == 'rerun' and code_target: ed_edits.append(lambda cs: find(cs).__setitem__('execution_count', n1))
        if y == 'label': ed_edits.append(lambda cs: find(cs)['metadata'].__setitem__('label', 'L1'))
        tag.append('del-%s,ed-%s' % (x, y))
    else:
        res = {'output_type': 'execute_result', 'data': {'text/plain': _fill(r, 'Out[%d]: <result>')}, 'metadata': {}, 'execution_count': n0}
        nout = r.choice([1, 2, 3]) if level == 'output' else r.choice([0, 1, 2])
        outs = [items.output() for _ in range(max(nout - 1, 0))]
        j = r.randrange(len(outs) + 1)
        if nout: outs.insert(j, res)
        tgt['outputs'] = outs; tgt['execution_count'] = n0
        for k in r.sample(sorted(TD_FLAGS), r.choice([0, 1, 2])): tgt['metadata'][k] = r.choice(TD_FLAGS[k])
        def bump_out(cs): find(cs)['outputs'][j]['execution_count'] = n1
        def bump_cell(cs): find(cs)['execution_count'] = n1
        if level == 'cell':
            del_edits.append(lambda cs: cs.remove(find(cs)))
            def flag_change(cs):
                m = find(cs)['metadata']; k = sorted(k for k in m if k in TD_FLAGS)[0]; m[k] = _td_other(r, TD_FLAGS[k], m[k])
            def flag_add(cs):
                m = find(cs)['metadata']; k = sorted(k for k in TD_FLAGS if k not in m)[0]; m[k] = r.choice(TD_FLAGS[k])
            def flag_remove(cs):
                m = find(cs)['metadata']; m.pop(sorted(k for k in m if k in TD_FLAGS)[0])
            have = [k for k in tgt['metadata'] if k in TD_FLAGS]
            pool = [('ec', bump_cell), ('flag-add', flag_add)]
            if nout: pool.append(('out-ec', bump_out))
            if have: pool += [('flag-change', flag_change), ('flag-remove', flag_remove)] if len(have) > 1 else [r.choice([('flag-change', flag_change), ('flag-remove', flag_remove)])]
            picked = r.sample(pool, r.randint(1, len(pool)))
            picked.sort(key=lambda p: p[0] != 'flag-change' and p[0] != 'flag-remove')      # edits of present flags before a flag is added
            for nm, f in picked: ed_edits.append(f)
            tag.append('+'.join(sorted(nm for nm, _ in picked)))
            if control: ed_edits.append(lambda cs: find(cs)['metadata'].__setitem__('tags', ['changed']))
        else:
            del_edits.append(lambda cs: find(cs)['outputs'].pop(j))
            ed_edits.append(bump_out)
            both = r.random() < 0.5
            if both: ed_edits.append(bump_cell)
            tag.append('out%dof%d%s' % (j, nout, '+ec' if both else ''))
            if control: ed_edits.append(lambda cs: find(cs)['outputs'][j]['metadata'].__setitem__('isolated', True))
        if r.random() < 0.3: del_edits.append(edit_other_cell); tag.append('del-other')

    def apply_all(fs):
        def go(cs):
            for f in fs: f(cs)
        return go
    sides = {'del': apply_all(del_edits), 'ed': apply_all(ed_edits)}
    b = _td_side(cells, bm, bm, lambda cs: None)
    l = _td_side(cells, lm, bm, sides['del' if deleter == 'local' else 'ed'])
    rm = _td_side(cells, rmm, bm, sides['del' if deleter == 'remote' else 'ed'])
    name = 'transdel:%s%s:%s-deletes:%s@4.%d%d%d' % (level, '-control' if control else '', deleter, ':'.join(tag), bm, lm, rmm)
    return (name, b, l, rm)


def transient_vs_delete_triples(r, tier):
    """systematic part: every level x deleting side (every flag for the mapping level), crossed roles, one control per level;
    sampled part: the other dimensions (several keys, minors, extras, sizes)"""
    out = []
    for deleter in ('remote', 'local'):
        for k in sorted(TD_FLAGS):
            out.append(make_transient_vs_delete(r, 'key', deleter, keys=[k]))
        out.append(make_transient_vs_delete(r, 'key', deleter, nkeys=2, crossed=True))
        out.append(make_transient_vs_delete(r, 'cell', deleter))
        out.append(make_transient_vs_delete(r, 'output', deleter))
    for level in TD_LEVELS:
        out.append(make_transient_vs_delete(r, level, r.choice(['local', 'remote']), control=True))
    for _ in range(14 if tier == 'quick' else 200):
        level = r.choice(['key', 'key', 'cell', 'output'])
        out.append(make_transient_vs_delete(r, level, r.choice(['local', 'remote']), minors=r.choice(TD_MINORS), nkeys=r.choice([1, 2, 3]),
                                            crossed=r.random() < 0.3, control=r.random() < 0.15))
    return out


# ---------------------------------------------------------------------------------------------------------------------
# Family 3: ONE output (or cell) carries BOTH a conflicting change and a separate, NON-conflicting one-sided change.
#
# The strategies that settle a conflict per output (inline-outputs, remove, clear-all) replace EVERY decision touching the
# output -- the conflicting one and the agreed / one-sided ones next to it -- by a single bundled decision, whose local_diff
# / remote_diff therefore have to carry the one-sided edits too; otherwise the decision list no longer determines both
# sides.  Varied: the kind of output (stream, display_data, execute_result, error), where the conflict sits (a line of the
# text, the evalue of an error, an output-metadata key, a source line of the cell), what the conflict is (rewrite / rewrite,
# rewrite / deletion of the line and its predecessor), where the one-sided change sits (another line of the same text -- rewritten, inserted or deleted --,
# the other mime type, the output metadata, the transient execution_count of a result, the ename / traceback of an error,
# the cell's source or metadata; as a control: ANOTHER output of the cell), which side makes it (local, remote, each side a
# different one), the position of the output among its siblings, cells around it, equal / different / upgraded minors.
MX_OKINDS = ('stream', 'display_data', 'execute_result', 'error')
MX_CONFLICTS = {'stream': ('line', 'line-del'), 'display_data': ('line', 'line-del', 'ometa'), 'execute_result': ('line', 'line-del', 'ometa'),
                'error': ('line', 'evalue')}
MX_EXTRAS = {'stream': ('line', 'line-ins', 'line-del'), 'display_data': ('line', 'line-ins', 'line-del', 'html', 'ometa'),
             'execute_result': ('line', 'line-ins', 'line-del', 'html', 'ometa', 'oec'), 'error': ('line', 'line-ins', 'ename')}
MX_CELL_EXTRAS = ('source', 'cmeta', 'other')          # one-sided change elsewhere in the cell (source / metadata / control: a sibling output)
MX_WHO = ('local', 'remote', 'both')


def _mx_lines(r, n, stem, nl='\n'):
    words = list(_TAG); r.shuffle(words)
    return ['%s %02d | %s | %d%s' % (stem, i, words[i % len(words)], r.randint(100, 9999), nl) for i in range(n)]


def _mx_edit(lines, ops):
    out = list(lines)
    for kind, i, txt in sorted(ops, key=lambda o: -o[1]):
        if kind == 'rewrite': out[i] = txt
        elif kind == 'insert': out.insert(i, txt)
        else: del out[i]
    return out


def make_mixed(r, okind, conflict, extra, who, minors='same', gap=4):
    """one triple (name, base, local, remote): the target output has a conflict of kind `conflict` and, on the side(s) `who`,
    a separate one-sided change of kind `extra`"""
    bm, lm, rmm = _td_minors(r, minors)
    items = _Items(r, 'cells4'); items.minor = bm
    ncells = r.choice([1, 1, 2, 3]); pos = r.randrange(ncells)
    cells = [items.cell(bm, 'code' if i == pos else None) for i in range(ncells)]
    for i, c in enumerate(cells): c['_k'] = i
    tgt = cells[pos]
    nslots = r.choice([3, 3, 4]); n = max(gap, 2) * nslots + r.choice([1, 2, 3])
    slots = [1 + gap * k + r.choice([0, 1]) for k in range(nslots)] if gap >= 2 else [1 + 2 * k for k in range(nslots)]
    r.shuffle(slots)
    nl = '' if okind == 'error' else '\n'
    text = _mx_lines(r, n, r.choice(['row', 'step', 'epoch', 'item']), nl)
    html = ['<tr><td>%d</td><td>%s</td></tr>\n' % (i, w) for i, w in enumerate(r.sample(_TAG, 9))]
    src = _mx_lines(r, 9, 'v%d = run' % r.randint(1, 9))
    ec = r.randint(1, 40)
    if okind == 'stream': out = {'output_type': 'stream', 'name': r.choice(['stdout', 'stderr']), 'text': ''.join(text)}
    elif okind == 'error': out = {'output_type': 'error', 'ename': 'ValueError', 'evalue': 'bad value %d' % r.randint(1, 99), 'traceback': list(text)}
    else:
        out = {'output_type': okind, 'data': {'text/plain': ''.join(text)}, 'metadata': {}}
        if extra == 'html' or r.random() < 0.3: out['data']['text/html'] = ''.join(html)
        if okind == 'execute_result': out['execution_count'] = ec
        if conflict == 'ometa' and r.random() < 0.5: out['metadata']['needs_background'] = 'light'
    nout = r.choice([1, 2, 2, 3]) if extra != 'other' else r.choice([2, 3])
    outs = [items.output() for _ in range(nout - 1)]
    j = r.randrange(nout); outs.insert(j, out)
    jo = (j + 1) % nout                       # the sibling output of the control
    if extra == 'other': outs[jo] = {'output_type': 'stream', 'name': 'stdout', 'text': ''.join(_mx_lines(r, 8, 'log'))}
    tgt['outputs'] = outs; tgt['execution_count'] = ec; tgt['source'] = ''.join(src)

    def find(cs):
        for c in cs:
            if c['_k'] == pos: return c

    def on_text(ops):                         # edit the lines of the target output's text
        def f(cs):
            o = find(cs)['outputs'][j]
            if okind == 'stream': o['text'] = ''.join(_mx_edit(text, ops))
            elif okind == 'error': o['traceback'] = _mx_edit(text, ops)
            else: o['data']['text/plain'] = ''.join(_mx_edit(text, ops))
        return f

    text_ops = {'local': [], 'remote': []}; edits = {'local': [], 'remote': []}
    def new_line(side, what): return '%s %s %04x%s' % (side.upper(), what, r.randrange(16 ** 4), nl)
    # the conflict
    s0 = slots.pop()
    if conflict == 'line':
        for s in ('local', 'remote'): text_ops[s].append(('rewrite', s0, new_line(s, 'conflicting')))
    elif conflict == 'line-del':
        d = r.choice(['local', 'remote']); o = 'remote' if d == 'local' else 'local'
        text_ops[d] += [('delete', s0, None), ('delete', s0 - 1, None)]; text_ops[o].append(('rewrite', s0, new_line(o, 'conflicting')))
    elif conflict == 'evalue':
        for s in ('local', 'remote'): edits[s].append(lambda cs, s=s: find(cs)['outputs'][j].__setitem__('evalue', 'bad value seen by ' + s))
    elif conflict == 'ometa':
        for s in ('local', 'remote'): edits[s].append(lambda cs, s=s: find(cs)['outputs'][j]['metadata'].__setitem__('needs_background', 'dark-' + s))
    elif conflict == 'source':
        for s in ('local', 'remote'):
            edits[s].append(lambda cs, s=s: find(cs).__setitem__('source', ''.join(_mx_edit(src, [('rewrite', 4, '%s = conflicting()\n' % s)]))))
    # the one-sided change(s)
    for s in (('local', 'remote') if who == 'both' else (who,)):
        if extra in ('line', 'line-ins', 'line-del'):
            text_ops[s].append(({'line': 'rewrite', 'line-ins': 'insert', 'line-del': 'delete'}[extra], slots.pop(), new_line(s, 'alone')))
        elif extra == 'html':
            k = 1 if s == 'local' else 6
            edits[s].append(lambda cs, s=s, k=k: find(cs)['outputs'][j]['data'].__setitem__('text/html', ''.join(_mx_edit(html, [('rewrite', k, '<tr><td>%s</td></tr>\n' % s)]))))
        elif extra == 'ometa':
            edits[s].append(lambda cs, s=s: find(cs)['outputs'][j]['metadata'].__setitem__('note-' + s, {'width': 320}))
        elif extra == 'oec':
            edits[s].append(lambda cs, s=s: find(cs)['outputs'][j].__setitem__('execution_count', ec + (1 if s == 'local' else 2)))
        elif extra == 'ename':
            edits[s].append(lambda cs, s=s: find(cs)['outputs'][j].__setitem__('ename', 'ValueError' + s.capitalize()))
        elif extra == 'source':
            k = 1 if s == 'local' else 7
            edits[s].append(lambda cs, s=s, k=k: find(cs).__setitem__('source', ''.join(_mx_edit(find(cs)['source'].splitlines(True), [('rewrite', k, '%s_alone = 1\n' % s)]))))
        elif extra == 'cmeta':
            edits[s].append(lambda cs, s=s: find(cs)['metadata'].__setitem__('note-' + s, 'reviewed'))
        elif extra == 'other':
            k = 1 if s == 'local' else 6
            edits[s].append(lambda cs, s=s, k=k: find(cs)['outputs'][jo].__setitem__('text', ''.join(_mx_edit(find(cs)['outputs'][jo]['text'].splitlines(True), [('rewrite', k, '%s alone\n' % s)]))))
    if ec and who == 'both' and extra == 'oec' and r.random() < 0.5:       # a re-run: the cell's count moves with the output's
        edits['local'].append(lambda cs: find(cs).__setitem__('execution_count', ec + 1))

    def side(s):
        def go(cs):
            if text_ops[s]: on_text(text_ops[s])(cs)
            for f in edits[s]: f(cs)
        return go
    b = _td_side(cells, bm, bm, lambda cs: None)
    l = _td_side(cells, lm, bm, side('local'))
    rm = _td_side(cells, rmm, bm, side('remote'))
    name = 'mixed:%s:%s+%s:%s-alone:out%dof%d:gap%d@4.%d%d%d' % (okind, conflict, extra, who, j, nout, gap, bm, lm, rmm)
    return (name, b, l, rm)


def mixed_change_triples(r, tier):
    """systematic part: every output kind x every place of the one-sided change x side making it (the conflict on a line of the
    text), every kind of conflict once per output kind, the cell-level places and the sibling-output control;
    sampled part: all dimensions incl. minors and the distance between the two changes"""
    out = []
    for okind in MX_OKINDS[:3]:               # (any change to an error output makes it a different output: sampled part only)
        for extra in MX_EXTRAS[okind]:
            for who in (MX_WHO if extra == 'line' else (r.choice(MX_WHO[:2]),)):
                out.append(make_mixed(r, okind, 'line', extra, who))
        for conflict in MX_CONFLICTS[okind][1:]:
            out.append(make_mixed(r, okind, conflict, 'line', r.choice(MX_WHO)))
        out.append(make_mixed(r, okind, 'source', 'line', r.choice(MX_WHO)))
        out.append(make_mixed(r, okind, 'line', r.choice(MX_CELL_EXTRAS), r.choice(MX_WHO)))
    for extra in MX_CELL_EXTRAS:
        out.append(make_mixed(r, r.choice(MX_OKINDS), 'line', extra, r.choice(MX_WHO)))
    for _ in range(16 if tier == 'quick' else 300):
        okind = r.choice(MX_OKINDS)
        conflict = r.choice(MX_CONFLICTS[okind] + ('source',))
        pool = MX_EXTRAS[okind] + MX_CELL_EXTRAS if conflict != 'source' else MX_EXTRAS[okind]
        out.append(make_mixed(r, okind, conflict, r.choice(pool), r.choice(MX_WHO), minors=r.choice(TD_MINORS), gap=r.choice([1, 2, 3, 4, 5])))
    return out
