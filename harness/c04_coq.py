"""Running the Coq schema validator (coq/Schema/Schema.v on the generated coq/Gen/NbSchemas.v) on concrete documents:
Python JSON values are printed as Gallina terms into a scratch cases.v, evaluated with vm_compute under coqc, and the
verdict list is parsed back.  Used by the C04 / C09 checks (no shared files, no extraction needed)."""
import os, re, math, json, subprocess, tempfile, shutil
from concurrent.futures import ThreadPoolExecutor

VERIF = os.path.dirname(os.path.dirname(os.path.abspath(__file__)))
COQ = os.path.join(VERIF, 'coq')

HEADER = ('From Coq Require Import List NArith ZArith String.\n'
          'From NB Require Import Base.Json Diff.Codec Schema.Schema Gen.NbSchemas.\n'
          'Import ListNotations.\nLocal Open Scope string_scope.\n'
          'Definition r (o : option bool) : nat := match o with Some true => 1 | Some false => 0 | None => 2 end.\n')


def coq_str(s):
    """pystr term: printable ASCII runs (and LF) as string literals (a double quote is written twice), anything else
    as explicit code points"""
    if s == '': return '[]'
    parts = []; run = []; other = []
    def flush_run():
        if run: parts.append('of_ascii "%s"' % ''.join(run).replace('"', '""')); run.clear()
    def flush_other():
        if other: parts.append('[' + '; '.join('%d%%N' % c for c in other) + ']'); other.clear()
    for ch in s:
        o = ord(ch)
        if 32 <= o < 127 or o == 10:
            flush_other(); run.append(ch)
        else:
            flush_run(); other.append(o)
    flush_run(); flush_other()
    return '(' + ' ++ '.join(parts) + ')%list' if len(parts) > 1 else '(' + parts[0] + ')'


def float_me(x):
    """finite double -> (m, e) with x = m * 2^e, m odd; zeros are (0,0) / (0,1) as in Base/Json.v"""
    if x != x or x in (float('inf'), float('-inf')): raise ValueError('not JSON: %r' % x)
    if x == 0: return (0, 1 if math.copysign(1.0, x) < 0 else 0)
    m, d = x.as_integer_ratio()
    e = -(d.bit_length() - 1)
    while m % 2 == 0: m //= 2; e += 1
    return (m, e)


def coq_json(v):
    if v is None: return 'JNull'
    if v is True: return '(JBool true)'
    if v is False: return '(JBool false)'
    if isinstance(v, int): return '(JInt (%d)%%Z)' % v
    if isinstance(v, float):
        m, e = float_me(v); return '(JFlt (%d)%%Z (%d)%%Z)' % (m, e)
    if isinstance(v, str): return '(JStr %s)' % coq_str(v)
    if isinstance(v, (list, tuple)): return '(JArr [' + '; '.join(coq_json(x) for x in v) + '])'
    if isinstance(v, dict):
        for k in v:
            if not isinstance(k, str): raise ValueError('non-string key %r' % (k,))
        return '(JObj [' + '; '.join('(%s, %s)' % (coq_str(k), coq_json(v[k])) for k in sorted(v)) + '])'
    raise ValueError('not JSON: %r' % (v,))


def schema_expr(key):
    """key: 'nb<k>' (whole notebook), 'nb<k>:<definition pointer>' (e.g. nb4:/definitions/cell), 'merge', 'diff',
    'merge:<ptr>' / 'diff:<ptr>'.  Returns (defs term, schema term)."""
    if key.startswith('nb'):
        k = int(key[2]); rest = key[3:]
        if not rest: return 'nb_defs_%d' % k, 'nb_root_%d' % k
        return 'nb_defs_%d' % k, '(SRef %s)' % coq_str('nb#' + rest[1:])
    if key.startswith('merge'):
        rest = key[5:]
        if not rest: return 'merge_defs', 'merge_root'
        return 'merge_defs', '(SRef %s)' % coq_str('merge_format.schema.json#' + rest[1:])
    if key.startswith('diff'):
        rest = key[4:]
        if not rest: return 'diff_defs', 'diff_root'
        return 'diff_defs', '(SRef %s)' % coq_str('diff_format.schema.json#' + rest[1:])
    raise ValueError(key)


def _run_file(d, i, body):
    f = os.path.join(d, 'cases%d.v' % i)
    open(f, 'w').write(HEADER + body)
    p = subprocess.run(['timeout', '900', 'coqc', '-Q', COQ, 'NB', f], capture_output=True, text=True, cwd=d)
    if p.returncode != 0:
        return None, (p.stderr + p.stdout)[-1500:]
    out = []
    for m in re.finditer(r'=\s*\[([^\]]*)\]\s*:\s*list nat', p.stdout):
        out += [int(x) for x in m.group(1).replace('\n', ' ').split(';') if x.strip()]
    return out, ''


def coq_validate(cases, per_file=150, workers=12):
    """cases: [(schema key, json value)] -> list of True / False / None(out of fuel) ; raises RuntimeError when coqc
    fails (e.g. the generated schemas no longer build)."""
    if not cases: return []
    chunks = [cases[i:i + per_file] for i in range(0, len(cases), per_file)]
    d = tempfile.mkdtemp(prefix='nbv_cq_')
    try:
        bodies = []
        for ch in chunks:
            lines = []
            for j in range(0, len(ch), 25):
                items = []
                for key, val in ch[j:j + 25]:
                    de, se = schema_expr(key)
                    items.append('r (validate_run %s %s %s)' % (de, se, coq_json(val)))
                lines.append('Eval vm_compute in [\n ' + ';\n '.join(items) + '].')
            bodies.append('\n'.join(lines) + '\n')
        with ThreadPoolExecutor(max_workers=workers) as ex:
            res = list(ex.map(lambda t: _run_file(d, t[0], t[1]), enumerate(bodies)))
    finally:
        shutil.rmtree(d, ignore_errors=True)
    out = []
    for ch, (r, err) in zip(chunks, res):
        if r is None or len(r) != len(ch):
            raise RuntimeError('coqc failed on generated cases: ' + (err or 'result count mismatch'))
        out += [True if x == 1 else False if x == 0 else None for x in r]
    return out


def coq_pat_match(cases):
    """cases: [(pat constructor name, str)] -> list of bool"""
    if not cases: return []
    d = tempfile.mkdtemp(prefix='nbv_cq_')
    try:
        items = ['(if pat_match %s %s then 1 else 0)' % (p, coq_str(s)) for p, s in cases]
        body = ''.join('Eval vm_compute in [\n ' + ';\n '.join(items[j:j + 50]) + '].\n' for j in range(0, len(items), 50))
        r, err = _run_file(d, 0, body)
    finally:
        shutil.rmtree(d, ignore_errors=True)
    if r is None or len(r) != len(cases): raise RuntimeError('coqc failed on pattern cases: ' + err)
    return [x == 1 for x in r]
