"""C13 implementation-side runner.  Executed as  /venv/bin/python c13_runner.py <tasks.json> <results.json>
with PYTHONPATH=$NBDIME_REPO.  Imports nothing from the rest of the harness.

Around each public nbdime call it
  * snapshots every argument (canonical sorted-key JSON, and insertion-ordered JSON) before and after the call
    -> 'modified' (canonical text changed) / 'reordered' (only key order changed);
  * calls the function a second time on the same objects and compares the canonical results -> 'recompute_differs';
  * records the mutable objects (list/dict, by id()) shared between the result and each argument -> 'shared';
  * appends a sentinel to every list and inserts a sentinel key into every dict reachable from the result and
    snapshots the arguments again -> 'mutation_alters' (the direct oracle for the aliasing clause; it does not use the
    id() walk, so the two observations check each other).
The oracle uses only json, copy and builtins on the observed Python objects -- no nbdime code.
Also: op 'outputs' (diff_single_outputs with optional fault injection into copy.deepcopy / diff, for the store
model correspondence), op 'shrink' (greedy in-process shrinking of a failing case under a fixed signature).
"""
import sys, json, copy, io, traceback

SENT = '__c13_sentinel__'

import uuid as _uuid
_UC = [0]
def _det_uuid4():
    _UC[0] += 1
    return _uuid.UUID(int=(0x5eed << 96) | _UC[0])
_uuid.uuid4 = _det_uuid4
def reset_random():
    """random cell ids (nbformat's generate_corpus_id -> uuid.uuid4) are an environment input of the call: fix it"""
    _UC[0] = 0

def canon(x):
    return json.dumps(x, sort_keys=True, default=_dflt)

def ordered(x):
    return json.dumps(x, sort_keys=False, default=_dflt)

def _dflt(o):
    return '<<%s>>' % type(o).__name__

def mutables(x, path=(), out=None):
    """id -> (path, object) for every list/dict reachable from x (tuples are traversed, not recorded)."""
    if out is None: out = {}
    if isinstance(x, dict):
        if id(x) in out: return out
        out[id(x)] = (path, x)
        for k, v in x.items(): mutables(v, path + (k,), out)
    elif isinstance(x, list):
        if id(x) in out: return out
        out[id(x)] = (path, x)
        for i, v in enumerate(x): mutables(v, path + (i,), out)
    elif isinstance(x, tuple):
        for i, v in enumerate(x): mutables(v, path + (i,), out)
    return out

def deep_mutate(x):
    objs = [o for (_, o) in mutables(x).values()]
    for o in objs:
        if isinstance(o, list): o.append(SENT)
        else: dict.__setitem__(o, SENT, SENT)

def maximal_shared(res, arg):
    """pairs (path in result, path in arg) of shared mutable objects that are not inside another shared object
    of the result (the roots of the shared sub-trees), sorted."""
    mr, ma = mutables(res), mutables(arg)
    shared = {i for i in mr if i in ma}
    pairs = []
    for i in shared:
        p = mr[i][0]
        # is some proper prefix of p (as an object of the result) also shared?
        inside = False
        for j in shared:
            q = mr[j][0]
            if j != i and len(q) < len(p) and p[:len(q)] == q: inside = True; break
        if not inside: pairs.append([list(p), list(ma[i][0])])
    pairs.sort(key=lambda pq: json.dumps(pq))
    return pairs

# ---------------------------------------------------------------------------------------------- calls
class Args(object):
    def __init__(self, **kw):
        self.merge_strategy = kw.get('merge_strategy', 'inline')
        self.input_strategy = kw.get('input_strategy')
        self.output_strategy = kw.get('output_strategy')
        self.ignore_transients = kw.get('ignore_transients', True)
        self.log_level = kw.get('log_level', 'INFO')

def nb(x):
    import nbformat
    return nbformat.from_dict(copy.deepcopy(x))

def ppconfig():
    from nbdime.prettyprint import PrettyPrintConfig
    return PrettyPrintConfig(out=io.StringIO())

def plain_diff(d):
    """the diff as it would arrive from JSON: fresh plain dicts/lists, then DiffEntry objects"""
    from nbdime.diff_utils import to_diffentry_dicts
    return to_diffentry_dicts(json.loads(json.dumps(d)))

# ---------------------------------------------------------------------------------------------- diffs / decisions from elsewhere
# nbdime's own differs and strategies always list the entries of a dict-level diff in key order
# (MappingDiffBuilder.validated, combine_patches), but patch() accepts them in ANY order: a diff written by hand or by
# another tool, received as JSON, or a decision's custom_diff edited by a front end need not be sorted.  'foreign'
# re-lists the dict-level entries (string keys) at EVERY nesting level of a valid diff; list-level diffs (integer keys)
# keep their order, which is significant there.  spec = {'mode': reverse|shuffle|rotate|swap, 'seed': n, 'fresh': bool,
# 'custom': bool}: 'fresh' = the diff arrives as new objects from JSON, otherwise the caller's DiffEntry lists are
# re-listed in place before the snapshot; 'custom' (decisions) = a front end resolved the conflicts by hand
# (action 'custom', custom_diff = its own listing of one side's diff).
def _relist(lst, mode, rr):
    n = len(lst)
    if n < 2: return
    if mode == 'reverse': lst.reverse()
    elif mode == 'rotate':
        k = rr.randrange(1, n); lst[:] = lst[k:] + lst[:k]
    elif mode == 'swap':
        i = rr.randrange(n - 1); lst[i], lst[i + 1] = lst[i + 1], lst[i]
    else:
        rr.shuffle(lst)

def foreign_order(d, mode, rr):
    """re-list, in place, the entries of every dict-level diff inside d"""
    if not isinstance(d, list): return d
    for e in d:
        if isinstance(e, dict) and e.get('op') == 'patch': foreign_order(e.get('diff'), mode, rr)
    if d and all(isinstance(e, dict) and isinstance(e.get('key'), str) for e in d):
        _relist(d, mode, rr)
    return d

def foreign_diff(d, spec):
    import random
    if not spec: return d
    if spec.get('fresh', True): d = plain_diff(d)
    return foreign_order(d, spec.get('mode', 'shuffle'), random.Random(spec.get('seed', 0)))

def foreign_decisions(decs, spec):
    import random
    if not spec: return decs
    rr = random.Random(spec.get('seed', 0)); mode = spec.get('mode', 'shuffle')
    if spec.get('fresh', True): decs = build_decisions(json.loads(json.dumps(decs)))
    for md in decs:
        for f in ('local_diff', 'remote_diff', 'custom_diff'):
            if md.get(f): foreign_order(md[f], mode, rr)
        if spec.get('custom') and md.get('conflict') and md.get('action') in ('base', 'local', 'remote', 'custom'):
            src = md.get('custom_diff') or md.get(rr.choice(['local_diff', 'remote_diff'])) or []
            md['custom_diff'] = foreign_order(plain_diff(src), mode, rr); md['action'] = 'custom'
    return decs

def build_decisions(lst):
    """a decision list as it arrives from JSON / a front end: MergeDecision objects over DiffEntry lists"""
    from nbdime.merging.decisions import MergeDecision
    from nbdime.diff_utils import to_diffentry_dicts
    out = []
    for m in lst:
        m = dict(m)
        for f in ('local_diff', 'remote_diff', 'custom_diff'):
            if m.get(f) is not None: m[f] = to_diffentry_dicts(json.loads(json.dumps(m[f])))
        m['common_path'] = tuple(m.get('common_path', ()))
        out.append(MergeDecision(**m))
    return out

def prepare(case):
    """returns (callable, ordered list of (argname, object) that are the snapshotted inputs)"""
    import nbdime
    import nbdime.merging.notebooks as MN
    import nbdime.merging.generic as MG
    import nbdime.prettyprint as PP
    c = case['call']
    J = lambda k: copy.deepcopy(case[k])
    F = case.get('foreign')          # the diff / decisions come from elsewhere: see foreign_order
    if c == 'diff':
        a, b = J('a'), J('b')
        return (lambda: nbdime.diff(a, b)), [('a', a), ('b', b)]
    if c == 'diff_notebooks':
        a, b = nb(case['a']), nb(case['b'])
        return (lambda: nbdime.diff_notebooks(a, b)), [('a', a), ('b', b)]
    if c in ('patch', 'patch_plain'):
        a = J('a')
        d = nbdime.diff(J('a'), J('b')) if 'd' not in case else J('d')
        if c == 'patch_plain' or 'd' in case: d = plain_diff(d)
        d = foreign_diff(d, F)
        return (lambda: nbdime.patch(a, d)), [('obj', a), ('diff', d)]
    if c in ('patch_notebook', 'patch_nb_generic'):
        a = nb(case['a'])
        d = nbdime.diff_notebooks(nb(case['a']), nb(case['b'])) if 'd' not in case else plain_diff(J('d'))
        d = foreign_diff(d, F)
        f = nbdime.patch_notebook if c == 'patch_notebook' else nbdime.patch
        return (lambda: f(a, d)), [('obj', a), ('diff', d)]
    if c == 'decide_merge':
        b, l, r = J('base'), J('local'), J('remote')
        return (lambda: nbdime.decide_merge(b, l, r)), [('base', b), ('local', l), ('remote', r)]
    if c == 'decide_merge_with_diff':
        b, l, r = J('base'), J('local'), J('remote')
        ld, rd = nbdime.diff(J('base'), J('local')), nbdime.diff(J('base'), J('remote'))
        return (lambda: MG.decide_merge_with_diff(b, l, r, ld, rd)), \
            [('base', b), ('local', l), ('remote', r), ('local_diff', ld), ('remote_diff', rd)]
    if c in ('decide_notebook_merge', 'merge_notebooks'):
        b, l, r = nb(case['base']), nb(case['local']), nb(case['remote'])
        args = Args(**case['args']) if case.get('args') is not None else None
        f = MN.decide_notebook_merge if c == 'decide_notebook_merge' else nbdime.merge_notebooks
        return (lambda: f(b, l, r, args)), [('base', b), ('local', l), ('remote', r)]
    if c == 'apply_decisions':
        b = J('base')
        decs = nbdime.decide_merge(J('base'), J('local'), J('remote')) if 'decisions' not in case else build_decisions(J('decisions'))
        decs = foreign_decisions(decs, F)
        return (lambda: nbdime.apply_decisions(b, decs)), [('base', b), ('decisions', decs)]
    if c == 'apply_decisions_nb':
        b = nb(case['base'])
        args = Args(**case['args']) if case.get('args') is not None else None
        decs = MN.decide_notebook_merge(nb(case['base']), nb(case['local']), nb(case['remote']), args) if 'decisions' not in case \
            else build_decisions(J('decisions'))
        decs = foreign_decisions(decs, F)
        return (lambda: nbdime.apply_decisions(b, decs)), [('base', b), ('decisions', decs)]
    if c == 'pretty_print_notebook':
        a = nb(case['a'])
        return (lambda: PP.pretty_print_notebook(a, ppconfig())), [('nb', a)]
    if c == 'pretty_print_notebook_diff':
        a = nb(case['a'])
        d = nbdime.diff_notebooks(nb(case['a']), nb(case['b'])) if 'd' not in case else plain_diff(J('d'))
        d = foreign_diff(d, F)
        return (lambda: PP.pretty_print_notebook_diff('a.ipynb', 'b.ipynb', a, d, ppconfig())), [('a', a), ('diff', d)]
    if c == 'pretty_print_diff':
        a = J('a')
        d = nbdime.diff(J('a'), J('b')) if 'd' not in case else plain_diff(J('d'))
        d = foreign_diff(d, F)
        return (lambda: PP.pretty_print_diff(a, d, '/', ppconfig())), [('a', a), ('diff', d)]
    if c == 'pretty_print_merge_decisions':
        b = nb(case['base'])
        args = Args(**case['args']) if case.get('args') is not None else None
        decs = MN.decide_notebook_merge(nb(case['base']), nb(case['local']), nb(case['remote']), args) if 'decisions' not in case \
            else build_decisions(J('decisions'))
        decs = foreign_decisions(decs, F)
        return (lambda: PP.pretty_print_merge_decisions(b, decs, ppconfig())), [('base', b), ('decisions', decs)]
    if c == 'pretty_print_notebook_merge':
        b, l, r = nb(case['base']), nb(case['local']), nb(case['remote'])
        args = Args(**case['args']) if case.get('args') is not None else None
        m, decs = nbdime.merge_notebooks(nb(case['base']), nb(case['local']), nb(case['remote']), args)
        decs = foreign_decisions(decs, F)
        return (lambda: PP.pretty_print_notebook_merge('b', 'l', 'r', b, l, r, m, decs, ppconfig())), \
            [('base', b), ('local', l), ('remote', r), ('merged', m), ('decisions', decs)]
    raise ValueError('unknown call ' + c)

def observe(case, want_shared=True):
    """Run one call and evaluate the property on it."""
    try:
        f, args = prepare(case)
    except Exception as e:
        return {'setup_err': type(e).__name__, 'msg': str(e)[:300]}
    before_c = {n: canon(o) for n, o in args}
    before_o = {n: ordered(o) for n, o in args}
    out = {'args': [n for n, _ in args]}
    res = None; raised = None
    try:
        reset_random()
        res = f()
    except Exception as e:
        raised = e
        out['exc'] = type(e).__name__; out['exc_msg'] = str(e)[:200]
    out['modified'] = [n for n, o in args if canon(o) != before_c[n]]
    out['reordered'] = [n for n, o in args if canon(o) == before_c[n] and ordered(o) != before_o[n]]
    if out['modified']:
        out['modified_detail'] = {n: {'before': before_c[n][:1500], 'after': canon(o)[:1500]} for n, o in args if n in out['modified']}
    if raised is not None:
        return out
    # recompute from the same objects
    try:
        reset_random()
        res2 = f()
        if canon(res2) != canon(res): out['recompute_differs'] = True
    except Exception as e:
        out['recompute_differs'] = True; out['recompute_exc'] = type(e).__name__
    mod2 = [n for n, o in args if canon(o) != before_c[n] and n not in out['modified']]
    if mod2:
        out['modified'] += mod2
        out['modified_detail'] = dict(out.get('modified_detail', {}), **{n: {'before': before_c[n][:1500], 'after': canon(o)[:1500], 'on': 'second call'} for n, o in args if n in mod2})
    out['result_mutables'] = len(mutables(res))
    out['arg_mutables'] = [len(mutables(o)) for _, o in args]
    if want_shared:
        sh = {}
        for n, o in args:
            p = maximal_shared(res, o)
            if p: sh[n] = p
        out['shared'] = sh
    out['result'] = json.loads(canon(res)) if case.get('want_result') else None
    mid_c = {n: canon(o) for n, o in args}
    deep_mutate(res)
    out['mutation_alters'] = [n for n, o in args if canon(o) != mid_c[n]]
    return out

def signatures(case, ob):
    """The property evaluated on one observation: list of violation signatures (empty = holds)."""
    c = case['call']; sigs = []
    if 'setup_err' in ob: return sigs
    for n in ob.get('modified', []):
        sigs.append('input-modified:%s:%s%s' % (c, n, ':on-exception' if 'exc' in ob else ''))
    if ob.get('recompute_differs'):
        sigs.append('recompute-differs:%s' % c)
    for n in ob.get('mutation_alters', []):
        sigs.append('result-aliases-input:%s:%s' % (c, n))
    return sigs

# ---------------------------------------------------------------------------------------------- shrinking
KEYS_JSON = ('a', 'b', 'base', 'local', 'remote')

def _subcases(v):
    """smaller variants of a JSON value"""
    if isinstance(v, list):
        for i in range(len(v)):
            yield v[:i] + v[i + 1:]
        for i, x in enumerate(v):
            for y in _subcases(x):
                yield v[:i] + [y] + v[i + 1:]
    elif isinstance(v, dict):
        for k in list(v):
            if k in ('cell_type', 'output_type', 'nbformat', 'nbformat_minor', 'cells', 'metadata', 'source', 'outputs', 'data', 'execution_count', 'name', 'text', 'ename', 'evalue', 'traceback'):
                continue
            d = dict(v); del d[k]; yield d
        for k, x in v.items():
            for y in _subcases(x):
                d = dict(v); d[k] = y; yield d
    elif isinstance(v, str) and len(v) > 1:
        yield v[:1]

def shrink(case, sig, budget=400):
    steps = 0; improved = True
    while improved and steps < budget:
        improved = False
        for k in KEYS_JSON:
            if k not in case: continue
            for y in _subcases(case[k]):
                steps += 1
                if steps > budget: break
                c2 = dict(case); c2[k] = y
                try:
                    ob = observe(c2, want_shared=False)
                except Exception:
                    continue
                if sig in signatures(c2, ob):
                    case = c2; improved = True; break
            if improved or steps > budget: break
    return case

# ---------------------------------------------------------------------------------------------- diff_single_outputs
class Fault(Exception):
    pass

def run_outputs(t):
    """diff_single_outputs(a, b) with an optional injected fault at the n-th deepcopy / at the nested diff.
    Reports the key order and canonical value of a and b afterwards and what the result shares with them."""
    import nbdime.diffing.notebooks as NB
    a, b = nb(t['a']), nb(t['b'])
    before = [canon(a), canon(b)]
    fault = t.get('fault')          # None | ['deepcopy', n] | ['diff', 0]
    orig_dc, orig_diff = NB.copy.deepcopy, NB.diff
    calls = {'deepcopy': 0, 'diff': 0}
    class CopyProxy(object):
        def __getattr__(self, name): return getattr(copy, name)
        def deepcopy(self, x, memo=None):
            calls['deepcopy'] += 1
            if fault and fault[0] == 'deepcopy' and calls['deepcopy'] == fault[1] + 1: raise Fault('deepcopy')
            return copy.deepcopy(x)
    def diff_proxy(x, y, *aa, **kw):
        calls['diff'] += 1
        if fault and fault[0] == 'diff': raise Fault('diff')
        return orig_diff(x, y, *aa, **kw)
    orig_copy_mod = NB.copy
    NB.copy = CopyProxy(); NB.diff = diff_proxy
    out = {}
    try:
        try:
            res = NB.diff_single_outputs(a, b)
            out['ok'] = json.loads(canon(res))
            out['shared'] = {n: maximal_shared(res, o) for n, o in (('a', a), ('b', b)) if maximal_shared(res, o)}
        except Fault as e:
            out['fault'] = str(e)
        except Exception as e:
            out['err'] = type(e).__name__; out['msg'] = str(e)[:200]
    finally:
        NB.copy = orig_copy_mod; NB.diff = orig_diff
    out['keys_a'] = list(a.keys()); out['keys_b'] = list(b.keys())
    out['value_a'] = json.loads(ordered(a)); out['value_b'] = json.loads(ordered(b))
    out['unchanged'] = [canon(a) == before[0], canon(b) == before[1]]
    out['calls'] = calls
    return out

# ---------------------------------------------------------------------------------------------- patch trace for T1
def run_patch_trace(t):
    """patch(obj, diff) on plain objects built from JSON; reports result value, sharing with obj and with diff."""
    import nbdime
    a = copy.deepcopy(t['a']); d = plain_diff(t['d'])
    ba, bd = canon(a), canon(d)
    out = {}
    try:
        res = nbdime.patch(a, d)
    except Exception as e:
        out['err'] = type(e).__name__; out['msg'] = str(e)[:200]
        out['unchanged'] = [canon(a) == ba, canon(d) == bd]
        return out
    out['ok'] = json.loads(ordered(res))
    out['shared_obj'] = maximal_shared(res, a)
    out['shared_diff'] = maximal_shared(res, d)
    out['unchanged'] = [canon(a) == ba, canon(d) == bd]
    return out

def run_task(t):
    op = t.get('op', 'observe')
    if op == 'observe':
        ob = observe(t['case'])
        ob['signatures'] = signatures(t['case'], ob)
        return ob
    if op == 'shrink':
        return {'case': shrink(t['case'], t['sig'], t.get('budget', 400))}
    if op == 'outputs':
        return run_outputs(t)
    if op == 'patch_trace':
        return run_patch_trace(t)
    raise ValueError('unknown op')

def main():
    tasks = json.load(open(sys.argv[1]))
    import logging
    logging.disable(logging.CRITICAL)
    out = []
    for t in tasks:
        try:
            out.append(run_task(t))
        except Exception as e:
            out.append({'harness_err': type(e).__name__, 'msg': str(e)[:300], 'tb': traceback.format_exc()[-1200:]})
    json.dump(out, open(sys.argv[2], 'w'), default=_dflt)

if __name__ == '__main__':
    main()
