"""C16 implementation runner.  Invoked as /venv/bin/python c16_runner.py <tasks.json> <results.json> with
PYTHONPATH=$NBDIME_REPO.  Imports nothing from the harness.  Renders notebooks, notebook diffs and merge decisions with
the REAL nbdime.prettyprint under every requested configuration and reports, per configuration, either the text written
to config.out or the exception, plus the external tools that were spawned (observed from outside: git/diff found on
PATH are logging wrapper scripts that exec the real tool).  Tool availability is controlled through PATH only."""
import sys, os, io, json, shutil, tempfile, traceback, copy, stat

CATS = ['sources', 'outputs', 'attachments', 'metadata', 'id', 'details']

class Sandbox:
    def __init__(self):
        self.orig_path = os.environ.get('PATH', '')
        self.real = {t: shutil.which(t) for t in ('git', 'diff', 'diff3')}
        self.d = tempfile.mkdtemp(prefix='nbv_c16_')
        self.log = os.path.join(self.d, 'tools.log')
        open(self.log, 'w').close()
        os.environ['C16_LOG'] = self.log
        home = os.path.join(self.d, 'home'); os.makedirs(home)
        empty = os.path.join(self.d, 'gitconfig'); open(empty, 'w').close()
        os.environ.update(HOME=home, XDG_CONFIG_HOME=os.path.join(home, '.config'), GIT_CONFIG_GLOBAL=empty,
                          GIT_CONFIG_NOSYSTEM='1', JUPYTER_CONFIG_DIR=os.path.join(home, '.jupyter'), LC_ALL='C.UTF-8')
        for v in ('GIT_DIR', 'GIT_WORK_TREE', 'GIT_EXTERNAL_DIFF', 'GIT_PAGER', 'GIT_DIFF_OPTS'): os.environ.pop(v, None)
        self.dirs = {}
        for hg in (True, False):
            for hd in (True, False):
                p = os.path.join(self.d, 'bin_%d%d' % (hg, hd)); os.makedirs(p)
                if hg: self.wrapper(p, 'git')
                if hd: self.wrapper(p, 'diff')
                self.dirs[(hg, hd)] = p
    def wrapper(self, d, tool):
        real = self.real[tool]
        if not real: raise RuntimeError('tool %s not installed' % tool)
        f = os.path.join(d, tool)
        with open(f, 'w') as fh:
            fh.write('#!/bin/sh\necho "%s $*" >> "$C16_LOG"\nexec %s "$@"\n' % (tool, real))
        os.chmod(f, 0o755)
    def set_tools(self, has_git, has_diff):
        os.environ['PATH'] = self.dirs[(bool(has_git), bool(has_diff))]
    def take_log(self):
        with open(self.log) as fh: s = fh.read()
        if s: open(self.log, 'w').close()
        return [l for l in s.split('\n') if l]
    def close(self):
        os.environ['PATH'] = self.orig_path
        shutil.rmtree(self.d, ignore_errors=True)

class Include:
    """what PrettyPrintConfig(include=...) reads: one boolean attribute per category"""
    def __init__(self, mask):
        for i, c in enumerate(CATS): setattr(self, c, not (mask >> i) & 1)

def clean(x):
    if isinstance(x, dict): return {k: clean(v) for k, v in x.items()}
    if isinstance(x, (list, tuple)): return [clean(v) for v in x]
    return x

def render_all(sb, configs, fn):
    """fn(config) renders into config.out; returns (unique outputs, per-config records)"""
    from nbdime.prettyprint import PrettyPrintConfig
    outs, index, recs = [], {}, []
    for c in configs:
        sb.set_tools(c.get('has_git', True), c.get('has_diff', True))
        buf = io.StringIO()
        rec = {}
        gcfg = None
        if c.get('git_color_always'):
            # a user-level git configuration that forces colour (color.ui = always)
            gcfg = tempfile.NamedTemporaryFile('w', suffix='.gitconfig', delete=False)
            gcfg.write('[color]\n\tui = always\n'); gcfg.close()
            os.environ['GIT_CONFIG_GLOBAL'] = gcfg.name
        try:
            cfg = PrettyPrintConfig(out=buf, include=Include(c['ignore']), color_words=c['color_words'],
                                    use_git=c['use_git'], use_diff=c['use_diff'], use_color=c['use_color'])
            fn(cfg)
            s = buf.getvalue()
            if s not in index: index[s] = len(outs); outs.append(s)
            rec['o'] = index[s]
        except BaseException as e:
            tb = traceback.extract_tb(e.__traceback__)
            where = ['%s:%s' % (os.path.basename(f.filename), f.name) for f in tb if 'nbdime' in f.filename][-3:]
            rec.update(err=type(e).__name__, msg=str(e)[:300], where=where, partial=buf.getvalue()[-300:])
        if gcfg is not None:
            os.environ.pop('GIT_CONFIG_GLOBAL', None); os.unlink(gcfg.name)
        rec['tools'] = sb.take_log()
        recs.append(rec)
    os.environ['PATH'] = sb.orig_path
    return outs, recs

def do_task(sb, t):
    import nbformat
    from nbdime import prettyprint as pp
    op = t['op']
    res = {}
    if op == 'show':
        nb = nbformat.from_dict(t['nb'])
        nbformat.validate(nb)
        before = json.dumps(clean(nb), sort_keys=True)
        res['outs'], res['recs'] = render_all(sb, t['configs'], lambda cfg: pp.pretty_print_notebook(nb, cfg))
        res['input_unchanged'] = json.dumps(clean(nb), sort_keys=True) == before
    elif op == 'diff':
        import nbdime
        a = nbformat.from_dict(t['a']); b = nbformat.from_dict(t['b'])
        nbformat.validate(a); nbformat.validate(b)
        if t.get('diff') is not None:
            from nbdime.diff_utils import to_diffentry_dicts
            d = to_diffentry_dicts(t['diff'])
        else:
            d = nbdime.diff_notebooks(a, b)
        res['diff'] = clean(d)
        res['outs'], res['recs'] = render_all(sb, t['configs'],
                                              lambda cfg: pp.pretty_print_notebook_diff('a.ipynb', 'b.ipynb', a, d, cfg))
    elif op == 'decisions':
        from nbdime.merging.notebooks import decide_notebook_merge
        base = nbformat.from_dict(t['base']); local = nbformat.from_dict(t['local']); remote = nbformat.from_dict(t['remote'])
        for x in (base, local, remote): nbformat.validate(x)
        class Args: pass
        args = None
        if t.get('strategy'):
            args = Args(); args.merge_strategy = t['strategy']; args.ignore_transients = t.get('ignore_transients', True)
            args.input_strategy = None; args.output_strategy = None; args.log_level = 'INFO'
        try:
            decisions = decide_notebook_merge(base, local, remote, args)
        except Exception as e:
            return {'merge_err': type(e).__name__, 'msg': str(e)[:300]}
        res['decisions'] = clean(decisions)
        res['outs'], res['recs'] = render_all(sb, t['configs'],
                                              lambda cfg: pp.pretty_print_merge_decisions(base, decisions, cfg))
    elif op == 'filter':
        # should_ignore_path on explicit path strings, for every ignore subset
        rows = []
        for mask in t['masks']:
            cfg = pp.PrettyPrintConfig(out=io.StringIO(), include=Include(mask))
            rows.append([bool(cfg.should_ignore_path(p)) for p in t['paths']])
        res['rows'] = rows
    elif op == 'constants':
        rows = {}
        for uc in (False, True):
            cfg = pp.PrettyPrintConfig(out=io.StringIO(), use_color=uc)
            rows[str(uc)] = [cfg.KEEP, cfg.REMOVE, cfg.ADD, cfg.INFO, cfg.RESET]
        res['constants'] = rows
    elif op == 'cli-enc':
        res.update(do_cli_enc(sb, t))
    elif op == 'cli':
        res.update(do_cli_git(sb, t) if t.get('app') == 'nbdiff-git' else do_cli_merge(sb, t) if t.get('app') == 'nbmerge' else do_cli(sb, t))
    else:
        raise ValueError(op)
    return res

def do_cli(sb, t):
    """nbdiff / nbshow / git-nbdiffdriver entry points, in-process, stdout captured"""
    import contextlib, nbformat
    d = tempfile.mkdtemp(prefix='nbv_c16cli_')
    cwd = os.getcwd()
    try:
        files = []
        for i, nb in enumerate(t['nbs']):
            p = os.path.join(d, 'n%d.ipynb' % i)
            with open(p, 'w', encoding='utf8') as fh: json.dump(nb, fh)
            files.append(p)
        os.chdir(d)
        recs = []
        for argv, tools in zip(t['argvs'], t['tools']):
            sb.set_tools(*tools)
            buf = io.StringIO(); rec = {}
            try:
                with contextlib.redirect_stdout(buf):
                    if t['app'] == 'nbdiff':
                        from nbdime import nbdiffapp
                        rc = nbdiffapp.main([files[0], files[1]] + argv)
                    elif t['app'] == 'nbshow':
                        from nbdime import nbshowapp
                        rc = nbshowapp.main([files[0]] + argv)
                    elif t['app'] == 'diffdriver':
                        from nbdime.vcs.git import diffdriver
                        rc = diffdriver.main(['diff'] + argv + ['n.ipynb', files[0], '0' * 40, '100644', files[1], '1' * 40, '100644'])
                    else:
                        raise ValueError(t['app'])
                rec['rc'] = rc; rec['out'] = buf.getvalue()
            except SystemExit as e:
                rec['rc'] = e.code; rec['out'] = buf.getvalue(); rec['exit'] = True
            except BaseException as e:
                tb = traceback.extract_tb(e.__traceback__)
                rec.update(err=type(e).__name__, msg=str(e)[:300],
                           where=['%s:%s' % (os.path.basename(f.filename), f.name) for f in tb if 'nbdime' in f.filename][-3:])
            finally:
                # flags given on the command line reconfigure the module-level differ: reset it for the next run
                try:
                    from nbdime.diffing.notebooks import reset_notebook_differ
                    reset_notebook_differ()
                except Exception:
                    pass
            rec['tools'] = sb.take_log()
            recs.append(rec)
        os.environ['PATH'] = sb.orig_path
        return {'recs': recs}
    finally:
        os.chdir(cwd)
        shutil.rmtree(d, ignore_errors=True)

def do_cli_merge(sb, t):
    """nbmerge --decisions entry point, in-process.  t['nbs'] = [base, local, remote]; None stands for the null file
    (/dev/null): the notebook does not exist on that side.  The decision summary is written through the 'nbdime' logger, so the
    record holds stdout ('out') and the formatted log records ('log') separately."""
    import contextlib, logging
    d = tempfile.mkdtemp(prefix='nbv_c16mrg_')
    cwd = os.getcwd()
    null = 'nul' if os.name == 'nt' else '/dev/null'
    try:
        files = []
        for i, nb in enumerate(t['nbs']):
            if nb is None: files.append(null); continue
            p = os.path.join(d, '%s.ipynb' % ('base', 'local', 'remote')[i])
            with open(p, 'w', encoding='utf8') as fh: json.dump(nb, fh)
            files.append(p)
        os.chdir(d)
        recs = []
        for argv, tools in zip(t['argvs'], t['tools']):
            sb.set_tools(*tools)
            buf = io.StringIO(); logbuf = io.StringIO(); rec = {}
            lg = logging.getLogger('nbdime')
            h = logging.StreamHandler(logbuf); h.setLevel(logging.DEBUG)
            h.setFormatter(logging.Formatter('[%(levelname)1.1s %(module)s:%(lineno)d] %(message)s'))
            prop = lg.propagate
            try:
                from nbdime import nbmergeapp
                with contextlib.redirect_stdout(buf):
                    lg.addHandler(h); lg.propagate = False
                    rc = nbmergeapp.main(['--decisions'] + argv + files)
                rec['rc'] = rc; rec['out'] = buf.getvalue(); rec['log'] = logbuf.getvalue()
            except SystemExit as e:
                rec['rc'] = e.code; rec['out'] = buf.getvalue(); rec['log'] = logbuf.getvalue(); rec['exit'] = True
            except BaseException as e:
                tb = traceback.extract_tb(e.__traceback__)
                rec.update(err=type(e).__name__, msg=str(e)[:300], partial=(buf.getvalue() + logbuf.getvalue())[-300:],
                           where=['%s:%s' % (os.path.basename(f.filename), f.name) for f in tb if 'nbdime' in f.filename][-3:])
            finally:
                lg.removeHandler(h); lg.propagate = prop
                try:
                    from nbdime.diffing.notebooks import reset_notebook_differ
                    reset_notebook_differ()
                except Exception:
                    pass
            rec['tools'] = sb.take_log()
            recs.append(rec)
        os.environ['PATH'] = sb.orig_path
        return {'recs': recs}
    finally:
        os.environ['PATH'] = sb.orig_path
        os.chdir(cwd)
        shutil.rmtree(d, ignore_errors=True)

def _write_tree(work, tree):
    """make the working tree under `work` hold exactly the files of `tree` (path -> notebook dict | text)"""
    for root, dirs, files in os.walk(work):
        if '.git' in dirs: dirs.remove('.git')
        for f in files: os.remove(os.path.join(root, f))
    for rel, doc in tree.items():
        p = os.path.join(work, *rel.split('/'))
        os.makedirs(os.path.dirname(p), exist_ok=True)
        with open(p, 'w', encoding='utf8') as fh:
            if isinstance(doc, str): fh.write(doc)
            else:
                json.dump(doc, fh, indent=1, ensure_ascii=False); fh.write('\n')

def do_cli_git(sb, t):
    """nbdiff in git-revision mode: a scratch repository holding t['commits'] (one full tree per commit, tagged t0, t1, ...)
    and optionally an uncommitted working tree t['worktree']; nbdiffapp.main runs in-process from the repository root with
    argv = flags + refs + paths ('SHA:k' stands for the abbreviated object name of commit k)."""
    import contextlib, subprocess
    d = tempfile.mkdtemp(prefix='nbv_c16git_')
    cwd = os.getcwd()
    work = os.path.join(d, 'work'); os.makedirs(work)
    genv = dict(os.environ, PATH=sb.orig_path)
    def git(*a):
        p = subprocess.run([sb.real['git'], '-c', 'user.name=t', '-c', 'user.email=t@example.org', '-c', 'commit.gpgsign=false',
                            '-c', 'core.autocrlf=false'] + list(a), cwd=work, env=genv, capture_output=True, text=True)
        if p.returncode != 0: raise RuntimeError('git %s: %s' % (' '.join(a), p.stderr[-300:]))
        return p.stdout.strip()
    try:
        git('init', '-q', '-b', 'main')
        shas = []
        for k, tree in enumerate(t['commits']):
            _write_tree(work, tree)
            git('add', '-A'); git('commit', '-q', '--allow-empty', '-m', 'commit %d' % k); git('tag', 't%d' % k)
            shas.append(git('rev-parse', 'HEAD'))
        if t.get('worktree') is not None: _write_tree(work, t['worktree'])
        os.chdir(work)
        recs = []
        for argv, tools in zip(t['argvs'], t['tools']):
            argv = [shas[int(x[4:])][:12] if x.startswith('SHA:') else x for x in argv]
            sb.set_tools(*tools)
            buf = io.StringIO(); rec = {}
            try:
                with contextlib.redirect_stdout(buf):
                    from nbdime import nbdiffapp
                    rc = nbdiffapp.main(argv)
                rec['rc'] = rc; rec['out'] = buf.getvalue()
            except SystemExit as e:
                rec['rc'] = e.code; rec['out'] = buf.getvalue(); rec['exit'] = True
            except BaseException as e:
                tb = traceback.extract_tb(e.__traceback__)
                rec.update(err=type(e).__name__, msg=str(e)[:300], partial=buf.getvalue()[-300:],
                           where=['%s:%s' % (os.path.basename(f.filename), f.name) for f in tb if 'nbdime' in f.filename][-3:])
            finally:
                try:
                    from nbdime.diffing.notebooks import reset_notebook_differ
                    reset_notebook_differ()
                except Exception:
                    pass
            rec['tools'] = sb.take_log()
            recs.append(rec)
        os.environ['PATH'] = sb.orig_path
        return {'recs': recs}
    finally:
        os.environ['PATH'] = sb.orig_path
        os.chdir(cwd)
        shutil.rmtree(d, ignore_errors=True)

ENC_MODULES = {'nbdiff': 'nbdime.nbdiffapp', 'nbshow': 'nbdime.nbshowapp', 'nbshow-stdin': 'nbdime.nbshowapp', 'nbmerge-decisions': 'nbdime.nbmergeapp',
               'nbmerge-stdout': 'nbdime.nbmergeapp', 'diffdriver': 'nbdime.vcs.git.diffdriver', 'mergedriver': 'nbdime.vcs.git.mergedriver'}
_enc_probe = {}

def do_cli_enc(sb, t):
    """the entry points as PROCESSES of their own (python -m <module>), so that they meet real standard streams: the encoding of
    sys.stdout / sys.stderr / sys.stdin is fixed by the environment of each run (locale variables, PYTHONUTF8,
    PYTHONCOERCECLOCALE, PYTHONIOENCODING; every other LC_* / LANG / PYTHON* variable of the harness is removed), stdout is a
    pipe or a file.  t['nbs'] are written as UTF-8 files named t['names']; the drivers are called with the argument lists git
    uses (diff: path old-file old-hex old-mode new-file new-hex new-mode; merge: %O %A %B %L %P).  Per run: exit status, stdout
    and stderr decoded with the codec the environment stands for, the encoding Python really gave stdout (probe), and for the
    merge driver whether the file it leaves in %A is a UTF-8 JSON notebook."""
    import subprocess, codecs
    d = tempfile.mkdtemp(prefix='nbv_c16enc_')
    try:
        base_env = {k: v for k, v in os.environ.items() if not k.startswith(('LC_', 'PYTHON')) and k not in ('LANG', 'LANGUAGE')}
        base_env.update(PYTHONPATH=os.environ.get('PYTHONPATH', ''), PYTHONDONTWRITEBYTECODE='1', PYTHONHASHSEED='0', PATH=sb.orig_path)
        def write_inputs():
            files = []
            for i, (nb, name) in enumerate(zip(t['nbs'], t['names'])):
                p = os.path.join(d, name)
                with open(p, 'w', encoding='utf8') as fh: json.dump(nb, fh, indent=1, ensure_ascii=bool(t.get('ascii_json')))
                files.append(p)
            return files
        files = write_inputs()
        app = t['app']; recs = []
        for k, run in enumerate(t['runs']):
            env = dict(base_env); env.update(run['env']['vars'])
            codec = run['env']['codec']
            pk = json.dumps(run['env']['vars'], sort_keys=True)
            if pk not in _enc_probe:
                pr = subprocess.run([sys.executable, '-c', 'import sys; print(sys.stdout.encoding, sys.stdout.errors)'], env=env, capture_output=True, timeout=120)
                _enc_probe[pk] = pr.stdout.decode('ascii', 'replace').strip()
            argv = run['argv']; stdin = subprocess.DEVNULL
            if app in ('nbdiff',): cmd = files[:2] + argv
            elif app == 'nbshow': cmd = files[:1] + argv
            elif app == 'nbshow-stdin': cmd = ['-'] + argv; stdin = open(files[0], 'rb')
            elif app == 'nbmerge-decisions': cmd = ['--decisions'] + argv + files[:3]
            elif app == 'nbmerge-stdout': cmd = argv + files[:3]
            elif app == 'diffdriver': cmd = ['diff'] + argv + [t.get('path') or t['names'][1], files[0], '1' * 40, '100644', files[1], '2' * 40, '100644']
            elif app == 'mergedriver':
                files = write_inputs()          # the driver overwrites %A
                cmd = ['merge'] + argv + [files[0], files[1], files[2], '7', t.get('path') or 'nb.ipynb']
            else: raise ValueError(app)
            rec = {'stream': _enc_probe[pk]}
            sink = None
            try:
                if run.get('sink') == 'file':
                    sink = open(os.path.join(d, 'stdout.%d' % k), 'w+b')
                p = subprocess.run([sys.executable, '-m', ENC_MODULES[app]] + cmd, cwd=d, env=env, stdin=stdin,
                                   stdout=sink or subprocess.PIPE, stderr=subprocess.PIPE, timeout=300)
                if sink: sink.seek(0); out = sink.read()
                else: out = p.stdout
                rec.update(rc=p.returncode, out=out.decode(codec, 'replace'), err=p.stderr.decode(codec, 'replace')[-6000:])
            except subprocess.TimeoutExpired:
                rec['timeout'] = True
            finally:
                if sink: sink.close()
                if stdin is not subprocess.DEVNULL: stdin.close()
            if app == 'mergedriver' and 'rc' in rec:
                try:
                    with open(files[1], encoding='utf8') as fh: m = json.load(fh)
                    rec['merged_ok'] = isinstance(m, dict) and isinstance(m.get('cells'), list)
                except Exception as e:
                    rec['merged_ok'] = False; rec['merged_err'] = '%s: %s' % (type(e).__name__, str(e)[:200])
            recs.append(rec)
        return {'recs': recs}
    finally:
        shutil.rmtree(d, ignore_errors=True)

def main():
    tasks = json.load(open(sys.argv[1]))
    sb = Sandbox()
    out = []
    try:
        for t in tasks:
            try:
                out.append(do_task(sb, t))
            except BaseException as e:
                os.environ['PATH'] = sb.orig_path
                out.append({'task_err': type(e).__name__, 'msg': (str(e) + '\n' + traceback.format_exc())[-1200:]})
    finally:
        sb.close()
    json.dump(out, open(sys.argv[2], 'w'))

if __name__ == '__main__':
    main()
