"""Node side of the C15 check: locate a Node >= 22.6 (type stripping) and run c15_run.mjs on task batches."""
import os, re, json, glob, subprocess, tempfile, shutil
from concurrent.futures import ThreadPoolExecutor
import core

HERE = os.path.dirname(os.path.abspath(__file__))

def _version(path):
    try:
        p = subprocess.run([path, '--version'], capture_output=True, text=True, timeout=20)
        m = re.match(r'v(\d+)\.(\d+)\.(\d+)', p.stdout.strip())
        return tuple(int(x) for x in m.groups()) if m else None
    except Exception:
        return None

_NODE = 'unset'
def find_node():
    """path of a usable node binary or None"""
    global _NODE
    if _NODE != 'unset': return _NODE
    cands = []
    if os.environ.get('C15_NODE'): cands.append(os.environ['C15_NODE'])
    cands += sorted(glob.glob('/root/.nvm/versions/node/v*/bin/node'), reverse=True)
    w = shutil.which('node')
    if w: cands.append(w)
    _NODE = None
    for c in cands:
        v = _version(c)
        if v and v >= (22, 6, 0):
            # does it really strip types?
            p = subprocess.run([c, '-e', "const m=require('node:module'); if(!m.stripTypeScriptTypes||!m.register) process.exit(3)"],
                               capture_output=True, text=True)
            if p.returncode == 0:
                _NODE = c; break
    return _NODE

def run_node(tasks, shards=8, timeout=900):
    """tasks: list of dicts; returns list of {'ok':..}|{'err':..,'msg':..} (HarnessCrash on runner failure)"""
    node = find_node()
    if node is None: raise RuntimeError('no usable node')
    if not tasks: return []
    n = max(1, min(shards, (len(tasks) + 7) // 8))
    chunks = [tasks[i::n] for i in range(n)]
    d = tempfile.mkdtemp(prefix='nbv_c15node_')
    try:
        env = dict(os.environ, NBDIME_REPO=core.REPO, HOME=d, XDG_CONFIG_HOME=d, NODE_NO_WARNINGS='1', NO_COLOR='1')
        for k in ('NODE_OPTIONS', 'NODE_PATH'): env.pop(k, None)
        def one(i):
            tf = os.path.join(d, 't%d.jsonl' % i); rf = os.path.join(d, 'r%d.jsonl' % i)
            with open(tf, 'w') as f:
                for t in chunks[i]: f.write(json.dumps(t) + '\n')
            p = subprocess.run([node, '--import', os.path.join(HERE, 'c15_register.mjs'), os.path.join(HERE, 'c15_run.mjs'), tf, rf],
                               env=env, capture_output=True, text=True, timeout=timeout, cwd=d)
            if p.returncode != 0 or not os.path.exists(rf):
                return [{'err': 'HarnessCrash', 'msg': (p.stderr or '')[-600:]} for _ in chunks[i]]
            out = [json.loads(l) for l in open(rf).read().split('\n') if l]
            if len(out) != len(chunks[i]):
                return [{'err': 'HarnessCrash', 'msg': 'answered %d of %d' % (len(out), len(chunks[i]))} for _ in chunks[i]]
            return out
        with ThreadPoolExecutor(max_workers=n) as ex:
            parts = list(ex.map(one, range(n)))
    finally:
        shutil.rmtree(d, ignore_errors=True)
    out = [None] * len(tasks)
    for i, part in enumerate(parts):
        for j, r in enumerate(part): out[i + j * n] = r
    return out
