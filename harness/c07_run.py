"""C07 implementation runner.  /venv/bin/python c07_run.py <tasks.json> <results.json>  (PYTHONPATH = the nbdime tree).
Imports nothing from the harness.  Which text-merge tool nbdime finds is decided by the PATH this process was given.
ops:
  builtin      {b,l,r}                 nbdime.prettyprint.builtin_merge_render(b,l,r)                 -> [merged, status]
  render       {b,l,r}                 nbdime.prettyprint.merge_render(b,l,r,None)                    -> [merged, status, tool]
  isrc         {base, local, remote}   resolve_strategy_inline_source on a one-cell document; local/remote = new source or null
                                       (null = ParentDeleted)  -> {action, conflict, source, calls}
  cellconf     {base_cells,start,lvals,lremove,rvals,rremove}   make_inline_cell_conflict             -> list of cell sources
  counter      {diff, path}            is_diff_all_transients / will_diff_counter_parent_deletion / create_..._counter_diff
  merge        {base, local, remote}   merge_notebooks (default strategy)  -> merged sources, conflict flags, merge_render calls
"""
import sys, json, copy, traceback, logging, shutil

CALLS = []

def install():
    import nbdime.prettyprint as pp
    import nbdime.merging.strategies as S
    orig = pp.merge_render
    def rec(b, l, r, strategy=None, *a, **kw):
        out = orig(b, l, r, strategy, *a, **kw)
        if strategy is None and not a and not kw:
            try:
                CALLS.append([as_text(b), as_text(l), as_text(r), out[0], out[1]])
            except Exception:
                pass
        return out
    rec.__wrapped__ = orig
    S.merge_render = rec

def as_text(x):
    return ''.join(x) if isinstance(x, list) else x

def tool_name():
    import nbdime.prettyprint as pp
    cfg = pp.DefaultConfig
    if cfg.use_git and pp.which('git'): return 'git'
    if cfg.use_diff and pp.which('diff3'): return 'diff3'
    return 'builtin'

def exc_info(e):
    return {'err': type(e).__name__, 'msg': str(e)[:300], 'tb': traceback.format_exc(limit=-5)[-1500:]}

def clean(x):
    if isinstance(x, dict): return {k: clean(v) for k, v in x.items()}
    if isinstance(x, (list, tuple)): return [clean(v) for v in x]
    return x

def centry(d):
    if d.op == 'parent_deleted': return ['PD', d.key]
    return ['P', d.key, [centry(x) for x in d.diff]]

def main():
    tasks = json.load(open(sys.argv[1]))
    logging.disable(logging.CRITICAL)
    import nbdime, nbformat
    import nbdime.prettyprint as pp
    import nbdime.merging.strategies as S
    import nbdime.merging.generic as G
    from nbdime.merging.notebooks import merge_notebooks, notebook_merge_strategies
    from nbdime.merging.decisions import apply_decisions
    from nbdime.diff_utils import to_diffentry_dicts
    from nbdime.diff_format import ParentDeleted
    from nbdime import diff as gdiff
    install()
    tool = tool_name()
    import prelude
    PRELUDE = prelude.maybe_abort_prelude()
    results = []
    for t in tasks:
        del CALLS[:]
        try:
            op = t['op']
            if op == 'builtin':
                m, st = pp.builtin_merge_render(t['b'], t['l'], t['r'])
                res = {'ok': [m, st]}
            elif op == 'render':
                m, st = pp.merge_render(t['b'], t['l'], t['r'], None)
                res = {'ok': [m, st, tool]}
            elif op == 'isrc':
                base = t['base']
                doc = {'source': base}
                ld = ParentDeleted if t['local'] is None else gdiff(base, t['local'])
                rd = ParentDeleted if t['remote'] is None else gdiff(base, t['remote'])
                dec = S.resolve_strategy_inline_source(('source',), base, ld, rd)
                ds = dec.validated(doc) if hasattr(dec, 'validated') else dec.decisions
                merged = apply_decisions(doc, ds)
                d0 = ds[0]
                res = {'ok': {'n': len(ds), 'action': d0.action, 'conflict': bool(d0.conflict),
                              'source': merged['source'], 'calls': list(CALLS), 'tool': tool}}
            elif op == 'cellconf':
                from nbdime.diff_format import op_addrange, op_removerange
                mk = lambda s: {'cell_type': 'code', 'source': s, 'metadata': {}, 'outputs': [], 'execution_count': None}
                base_cells = [mk(s) for s in t['base_cells']]
                ld = [op_addrange(t['start'], [mk(s) for s in t['lvals']])]
                if t['lremove']: ld.append(op_removerange(t['start'], t['lremove']))
                rd = [op_addrange(t['start'], [mk(s) for s in t['rvals']])]
                if t['rremove']: rd.append(op_removerange(t['start'], t['rremove']))
                cells = S.make_inline_cell_conflict(base_cells, ld, rd)
                res = {'ok': [[c['cell_type'], as_text(c['source'])] for c in cells]}
            elif op == 'counter':
                strategies = notebook_merge_strategies(None)
                d = to_diffentry_dicts(copy.deepcopy(t['diff']))
                path = tuple(t['path'])
                tr = bool(G.is_diff_all_transients(d, path, strategies.transients))
                wc = bool(G.will_diff_counter_parent_deletion(d, path, strategies))
                cd = [centry(x) for x in G.create_parent_deletion_counter_diff(d, path, strategies)]
                res = {'ok': {'transient': tr, 'will_counter': wc, 'counter_diff': cd,
                              'transients': list(strategies.transients),
                              'countering': [k for k, v in strategies.items() if v in G.countering_strategies]}}
            elif op == 'merge':
                b, l, r = (nbformat.from_dict(copy.deepcopy(t[k])) for k in ('base', 'local', 'remote'))
                merged, decisions = merge_notebooks(b, l, r)
                res = {'ok': {'sources': [as_text(c.get('source', '')) for c in merged['cells']],
                              'ids': [c.get('id') if isinstance(c.get('id'), str) else None for c in merged['cells']],
                              'conflicts': [[list(map(str, d.common_path)), d.action] for d in decisions if d.conflict],
                              'ndec': len(decisions), 'calls': list(CALLS), 'tool': tool}}
            else:
                raise ValueError('unknown op ' + op)
        except Exception as e:
            res = exc_info(e)
            res['calls'] = list(CALLS); res['tool'] = tool
        results.append(res)
    json.dump(results, open(sys.argv[2], 'w'))

if __name__ == '__main__':
    main()
