"""Seeded grammar-based generator of schema-valid Jupyter v4 notebooks, and of notebook pairs / triples related by
edit scripts.  Every random choice comes from the random.Random passed in; results are plain JSON-serialisable Python
data.  No nbdime import; nbformat / jsonschema are imported only inside validate() and the self test."""
import copy, itertools, random
import genjson

# ---------------------------------------------------------------- constants
# exotic line separators are produced with chr() so that no tool can mangle an escape sequence
EXOTIC_SEPS = ['\r', '\r\n', chr(0x0b), chr(0x0c), chr(0x1c), chr(0x85), chr(0x2028), chr(0x2029)]
SEP_NAMES = {'\n': 'LF', '\r': 'CR', chr(0x0b): 'VT', chr(0x0c): 'FF', chr(0x1c): 'FS', chr(0x1d): 'GS',
             chr(0x1e): 'RS', chr(0x85): 'NEL', chr(0x2028): 'LS', chr(0x2029): 'PS'}
NONASCII = ['caf' + chr(0xe9), chr(0x3b1) + ' = 0.5', chr(0x4e2d) + chr(0x6587), 'snow ' + chr(0x2603),
            'emoji ' + chr(0x1f600), 'na' + chr(0xef) + 've', chr(0xdf) + 'eta']
CODE_LINES = ['import numpy as np', 'import pandas as pd', 'x = 1', 'y = x ** 2', 'print(x)', 'print(x, y)',
              'def f(a, b):', '    return a + b', 'for i in range(10):', '    total += i', '    pass', '# comment',
              '# TODO: fix this', 'plt.plot(x, y)', 'df = pd.read_csv("data.csv")', 'df.head()', 'result = f(x, y)',
              'class Foo(object):', '    def __init__(self):', '        self.value = 42', 'assert result == 3', '',
              'z = [i * 2 for i in range(5)]', '%matplotlib inline', 'model.fit(X_train, y_train)']
MD_LINES = ['# Title', '## Section', 'Some *emphasised* text.', 'A paragraph with `code` in it.', '- item one',
            '- item two', '1. first', '', '$$e^{i\\pi} + 1 = 0$$', '![image](attachment:image.png)',
            '[link](http://example.org)', '> quote', '<b>html</b> inline', '| a | b |', '|---|---|', 'Final remarks.']
RAW_LINES = ['\\section{Intro}', '.. note::', '   restructured text', '<div>raw html</div>', 'plain raw text', '']
TAGS = ['hide', 'remove-input', 'parameters', 'slow', 'skip', 'a b', 'Tag', 'x/y', chr(0xe9) + 't' + chr(0xe9)]
ENAMES = ['ValueError', 'KeyError', 'ZeroDivisionError', 'NameError', 'TypeError']
TEXT_MIMES = ['text/plain', 'text/html', 'text/markdown', 'text/latex', 'image/svg+xml', 'application/javascript']
B64_MIMES = ['image/png', 'image/jpeg']
JSON_MIMES = ['application/json', 'application/vnd.x.y+json']
UPPER_MIMES = ['text/HTML', 'image/PNG']
B64_CHARS = 'ABCDEFGHIJKLMNOPQRSTUVWXYZabcdefghijklmnopqrstuvwxyz0123456789+/'
ID_CHARS = 'abcdefghijklmnopqrstuvwxyzABCDEFGHIJKLMNOPQRSTUVWXYZ0123456789-_'
HEX = '0123456789abcdef'
ALL_EDITS = ('insert', 'delete', 'move', 'duplicate', 'edit_source', 'edit_outputs', 'edit_metadata',
             'edit_attachments', 'clear_outputs', 'rerun', 'change_type', 'nb_metadata')
# keys whose values are constrained by the schema (never touched by the free-form metadata mutators)
CELL_MD_RESERVED = ('name', 'tags', 'collapsed', 'scrolled', 'jupyter', 'execution', 'format')
NB_MD_RESERVED = ('kernelspec', 'language_info', 'orig_nbformat', 'title', 'authors')
FREE_KEYS = ['a', 'b', 'k', 'key', 'x/y', 'A', 'custom', 'extra', 'nested', 'editable', 'deletable', 'slideshow',
             'run_control', 'lists', 'objs', 'num']

# ---------------------------------------------------------------- text
def _pool(kind):
    return {'code': CODE_LINES, 'markdown': MD_LINES, 'raw': RAW_LINES}.get(kind, CODE_LINES)

def gen_line(r, kind='code'):
    w = r.choice(_pool(kind))
    c = r.random()
    if c < 0.15: w += ' ' + r.choice(_pool(kind))
    elif c < 0.22: w += ' ' + r.choice(NONASCII)
    elif c < 0.27: w = w + '  # ' + str(r.randint(0, 999))
    return w

def gen_source(r, kind='code', nlines=None, rich=True):
    """ONE string; mostly LF separated, sometimes without trailing newline, occasionally exotic separators"""
    if nlines is None:
        nlines = r.choice([0, 1, 1, 2, 3, 4, 5, 7, 10, 16]) if rich else r.choice([0, 1, 1, 2, 3])
    exotic = rich and r.random() < 0.12
    parts = []
    for _ in range(nlines):
        sep = '\n'
        if exotic and r.random() < 0.4: sep = r.choice(EXOTIC_SEPS)
        parts.append(gen_line(r, kind) + sep)
    s = ''.join(parts)
    if s and r.random() < 0.35:
        s = s[:-2] if s.endswith('\r\n') else s[:-1]
    return s

def gen_pointer_repr(r):
    mod = r.choice(['foo.Bar', 'matplotlib.axes._subplots.AxesSubplot', 'pkg.mod.Klass', '__main__.Foo', 'object'])
    n = r.choice([8, 12, 12, 16])
    return '<' + mod + ' at 0x' + ''.join(r.choice(HEX) for _ in range(n)) + '>'

def gen_b64(r, short=None):
    """syntactically valid base64 text; >= 64 chars unless short (nbdime only treats >= 64 chars as base64)"""
    if short is None: short = r.random() < 0.15
    n = r.choice([4, 8, 20, 40, 60]) if short else r.choice([64, 64, 68, 96, 128, 200, 400])
    body = ''.join(r.choice(B64_CHARS) for _ in range(n))
    c = r.random()
    if c < 0.25: body = body[:-1] + '='
    elif c < 0.4: body = body[:-2] + '=='
    if n > 76 and r.random() < 0.3:
        body = '\n'.join(body[i:i + 76] for i in range(0, len(body), 76))
    if r.random() < 0.4: body += '\n'
    return body

def edit_b64(r, s):
    """a different base64 payload: mostly a few characters changed, sometimes a new payload"""
    if not s.strip('\n=') or r.random() < 0.3: return gen_b64(r, short=len(s) < 64)
    cs = list(s)
    idx = [i for i, ch in enumerate(cs) if ch in B64_CHARS]
    for i in r.sample(idx, min(len(idx), r.choice([1, 2, 5]))):
        cs[i] = r.choice([x for x in B64_CHARS if x != cs[i]])
    return ''.join(cs)

def _split_keep(s):
    """split into lines keeping the separators (LF / CRLF / CR only, so that exotic separators stay inside lines)"""
    out, cur, i = [], '', 0
    while i < len(s):
        ch = s[i]
        if ch == '\r' and i + 1 < len(s) and s[i + 1] == '\n':
            out.append(cur + '\r\n'); cur = ''; i += 2; continue
        cur += ch
        if ch in '\n\r': out.append(cur); cur = ''
        i += 1
    if cur: out.append(cur)
    return out

def edit_source_text(r, s, kind='code', mode=None):
    """derive a text related to s.  mode: 'tiny' (a character or two; similarity > 0.95 on long texts), 'line' (some
    whole lines inserted / removed / replaced), 'half' (about half of the lines or half of each line changed; around
    the 0.7 threshold), 'rewrite' (unrelated text), 'newline' (only the trailing newline / a separator changes)"""
    if mode is None:
        mode = r.choice(['tiny', 'tiny', 'line', 'line', 'half', 'half', 'rewrite', 'newline'])
    lines = _split_keep(s)
    if mode == 'rewrite' or not lines:
        t = gen_source(r, kind, nlines=r.choice([1, 2, 3, 5, 8]))
        return t if t != s else t + 'changed = True\n'
    if mode == 'tiny':
        for _ in range(r.choice([1, 1, 2])):
            i = r.randrange(len(lines)); l = lines[i]
            body = l.rstrip('\r\n'); tail = l[len(body):]
            j = r.randint(0, len(body))
            c = r.random()
            if c < 0.4: body = body[:j] + r.choice(['x', '_', '2', ' ', 'E']) + body[j:]
            elif c < 0.7 and body: j = min(j, len(body) - 1); body = body[:j] + body[j + 1:]
            elif body: j = min(j, len(body) - 1); body = body[:j] + r.choice(['X', 'q', '0']) + body[j + 1:]
            else: body = 'x'
            lines[i] = body + tail
    elif mode == 'line':
        for _ in range(r.choice([1, 1, 2, 3])):
            c = r.random()
            if c < 0.35: lines.insert(r.randint(0, len(lines)), gen_line(r, kind) + '\n')
            elif c < 0.6 and len(lines) > 1: del lines[r.randrange(len(lines))]
            elif c < 0.85: lines[r.randrange(len(lines))] = gen_line(r, kind) + '\n'
            elif len(lines) > 1: i = r.randrange(len(lines)); l = lines.pop(i); lines.insert(r.randint(0, len(lines)), l)
            else: lines.append(gen_line(r, kind) + '\n')
        if lines and not lines[-1].endswith(('\n', '\r')) and len(lines) > 1:
            # keep interior lines terminated so that "lines" stay lines
            lines[:-1] = [l if l.endswith(('\n', '\r')) else l + '\n' for l in lines[:-1]]
    elif mode == 'half':
        if r.random() < 0.5:
            k = max(1, int(len(lines) * r.choice([0.3, 0.5, 0.5, 0.7])))
            for i in r.sample(range(len(lines)), min(k, len(lines))):
                lines[i] = gen_line(r, kind) + '\n'
        else:
            for i in range(len(lines)):
                l = lines[i]; body = l.rstrip('\r\n'); tail = l[len(body):]
                h = int(len(body) * r.choice([0.3, 0.5, 0.7]))
                repl = gen_line(r, kind)
                lines[i] = (body[:h] + repl[:max(1, len(body) - h)] if r.random() < 0.5 else repl[:h] + body[h:]) + tail
    elif mode == 'newline':
        last = lines[-1]
        if last.endswith('\r\n'): lines[-1] = last[:-2] + r.choice(['', '\n'])
        elif last.endswith(('\n', '\r')): lines[-1] = last[:-1] + r.choice(['', '', '\r\n', '\n\n'])
        else: lines[-1] = last + r.choice(['\n', '\n', '\r\n', '\n\n'])
    lines = [l if (i == len(lines) - 1 or l.endswith(('\n', '\r'))) else l + '\n' for i, l in enumerate(lines)]
    t = ''.join(lines)
    if t == s: t = s + ('' if s.endswith('\n') or not s else '\n') + gen_line(r, kind)
    if t == s: t = s + '#'
    return t

# ---------------------------------------------------------------- ids
def gen_id(r, used):
    """a fresh cell id (1-64 chars of [a-zA-Z0-9-_]) not in `used`; added to `used`"""
    while True:
        c = r.random()
        if c < 0.6: n = 8
        elif c < 0.8: n = 36
        elif c < 0.9: n = r.randint(1, 3)
        else: n = r.choice([16, 32, 64])
        if n == 36:   # uuid-like
            i = '-'.join(''.join(r.choice(HEX) for _ in range(k)) for k in (8, 4, 4, 4, 12))
        elif n == 8: i = ''.join(r.choice(HEX) for _ in range(8))
        else: i = ''.join(r.choice(ID_CHARS) for _ in range(n))
        if i not in used:
            used.add(i); return i

def used_ids(*nbs):
    return set(c['id'] for nb in nbs for c in nb['cells'] if 'id' in c)

def has_ids(nb):
    return nb.get('nbformat_minor', 0) >= 5

# ---------------------------------------------------------------- metadata
def gen_free_value(r, key=None, depth=2):
    """arbitrary JSON for free-form metadata keys.  The keys 'lists' and 'objs' always hold a list of lists resp. a
    list of objects, so that the same key carries comparable structures across notebooks."""
    if key == 'lists':
        return [[genjson.gen_atom(r) for _ in range(r.choice([0, 1, 2, 3]))] for _ in range(r.choice([1, 2, 3]))]
    if key == 'objs':
        return [{k: genjson.gen_atom(r) for k in r.sample(['id', 'v', 'w'], r.choice([1, 2, 3]))}
                for _ in range(r.choice([1, 2, 3]))]
    if key == 'num': return r.choice([1, 1.0, True, 0, 0.0, False, 2, 2.0])
    if key in ('editable', 'deletable'): return r.choice([True, False])
    if key == 'slideshow': return {'slide_type': r.choice(['slide', 'subslide', 'fragment', 'skip', '-'])}
    if key == 'run_control': return {'frozen': r.choice([True, False]), 'read_only': r.choice([True, False])}
    if key == 'nested': return {'a': {'b': {'c': genjson.gen_value(r, 1)}}, 'l': [genjson.gen_value(r, 1)]}
    return _json_safe(genjson.gen_value(r, depth))

def _json_safe(v):
    """genjson values are already JSON values; floats there are finite, so this is the identity (kept as a guard)"""
    if isinstance(v, float) and (v != v or v in (float('inf'), float('-inf'))): return 0.0
    if isinstance(v, list): return [_json_safe(x) for x in v]
    if isinstance(v, dict): return {k: _json_safe(x) for k, x in v.items()}
    return v

def gen_tags(r):
    return r.sample(TAGS, r.choice([0, 1, 1, 2, 3]))

def gen_cell_metadata(r, kind, minor, rich=True):
    md = {}
    if not rich:
        if r.random() < 0.3: md['tags'] = gen_tags(r)
        if kind == 'code' and r.random() < 0.2: md['collapsed'] = r.choice([True, False])
        if r.random() < 0.15: md['k'] = r.choice([1, 1.0, True, 'v', None])
        return md
    if r.random() < 0.5: return md if r.random() < 0.7 else {'tags': gen_tags(r)}
    if r.random() < 0.4: md['tags'] = gen_tags(r)
    if r.random() < 0.25: md['collapsed'] = r.choice([True, False])
    if kind == 'code' and r.random() < 0.25: md['scrolled'] = r.choice([True, False, 'auto'])
    if r.random() < 0.15: md['name'] = r.choice(['cell', 'setup', 'plot-1', 'n' + str(r.randint(0, 99))])
    if r.random() < 0.25:
        j = {}
        if r.random() < 0.7: j['source_hidden'] = r.choice([True, False])
        if kind == 'code' and r.random() < 0.6: j['outputs_hidden'] = r.choice([True, False])
        if r.random() < 0.2: j['extra'] = gen_free_value(r, depth=1)
        md['jupyter'] = j
    if kind == 'code' and r.random() < 0.15:
        t = '2020-01-%02dT10:%02d:%02d.%06dZ' % (r.randint(1, 28), r.randint(0, 59), r.randint(0, 59), r.randint(0, 999999))
        md['execution'] = {k: t for k in r.sample(['iopub.execute_input', 'iopub.status.busy', 'iopub.status.idle',
                                                   'shell.execute_reply'], r.choice([1, 2, 4]))}
    if kind == 'raw' and r.random() < 0.4: md['format'] = r.choice(['text/html', 'text/latex', 'text/restructuredtext'])
    for _ in range(r.choice([0, 0, 1, 1, 2, 3])):
        k = r.choice(FREE_KEYS); md[k] = gen_free_value(r, k)
    return md

def gen_nb_metadata(r, rich=True):
    md = {}
    if r.random() < 0.8:
        lang = r.choice(['python', 'python', 'julia', 'R'])
        md['kernelspec'] = {'display_name': r.choice(['Python 3', 'Python 3 (ipykernel)', 'Julia 1.6', 'R']),
                            'language': lang, 'name': r.choice(['python3', 'python2', 'julia-1.6', 'ir'])}
        if r.random() < 0.1: del md['kernelspec']['language']
    if r.random() < 0.7:
        li = {'name': r.choice(['python', 'julia', 'R']), 'version': r.choice(['3.6.9', '3.8.10', '3.11.4', '1.6.0'])}
        c = r.random()
        if c < 0.4: li['codemirror_mode'] = {'name': 'ipython', 'version': r.choice([2, 3])}
        elif c < 0.6: li['codemirror_mode'] = r.choice(['r', 'julia', 'python'])
        if r.random() < 0.5:
            li.update({'file_extension': '.py', 'mimetype': 'text/x-python', 'pygments_lexer': 'ipython3',
                       'nbconvert_exporter': 'python'})
        md['language_info'] = li
    if not rich: return md
    if r.random() < 0.15: md['title'] = r.choice(['Analysis', 'Untitled', 'R' + chr(0xe9) + 'sum' + chr(0xe9)])
    if r.random() < 0.1: md['authors'] = [{'name': n} for n in r.sample(['Ada', 'Grace', 'Linus'], r.choice([1, 2]))]
    for _ in range(r.choice([0, 0, 1, 2, 3])):
        k = r.choice(FREE_KEYS + ['toc', 'widgets', 'celltoolbar'])
        if k == 'toc': md[k] = {'base_numbering': 1, 'nav_menu': {}, 'number_sections': r.choice([True, False])}
        elif k == 'widgets': md[k] = {'state': {}, 'version': '1.' + str(r.randint(0, 5))}
        elif k == 'celltoolbar': md[k] = r.choice(['Tags', 'Slideshow', 'Edit Metadata'])
        else: md[k] = gen_free_value(r, k)
    return md

# ---------------------------------------------------------------- mime bundles, outputs, attachments
def gen_mime_value(r, mt, rich=True):
    if mt in JSON_MIMES:
        c = r.random()
        if c < 0.25: return {k: genjson.gen_atom(r) for k in r.sample(['a', 'b', 'n', 'data'], r.choice([0, 1, 2, 3]))}
        if c < 0.4: return gen_free_value(r, 'lists')
        if c < 0.55: return gen_free_value(r, 'objs')
        if c < 0.7: return r.choice([1, 1.0, True, 0, 0.0, False, None, 2.5, 'text'])
        return _json_safe(genjson.gen_container(r, kind=r.choice(['list', 'dict']), depth=3))
    low = mt.lower()
    if low in B64_MIMES: return gen_b64(r)
    if low == 'text/plain':
        c = r.random()
        if c < 0.25: return gen_pointer_repr(r)
        if c < 0.35: return '[' + gen_pointer_repr(r) + ',\n ' + gen_pointer_repr(r) + ']'
        if c < 0.5: return str(r.randint(-5, 1000))
        return gen_source(r, 'code', nlines=r.choice([1, 1, 2, 4]), rich=rich)
    if low == 'text/html':
        return '<div>\n' + ''.join('<p>' + gen_line(r, 'markdown') + '</p>\n' for _ in range(r.choice([1, 2, 4]))) + '</div>'
    if low == 'text/markdown': return gen_source(r, 'markdown', nlines=r.choice([1, 2, 4]), rich=rich)
    if low == 'text/latex': return r.choice(['$\\alpha + \\beta$', '$$\\frac{1}{2}$$', '\\begin{equation}\nx^2\n\\end{equation}'])
    if low == 'image/svg+xml':
        return ('<svg xmlns="http://www.w3.org/2000/svg" width="%d" height="%d">\n<circle r="%d"/>\n</svg>'
                % (r.randint(10, 99), r.randint(10, 99), r.randint(1, 9)))
    if low == 'application/javascript': return 'console.log(' + str(r.randint(0, 99)) + ');\n' + 'var el = element;\n' * r.choice([0, 1])
    return gen_source(r, 'code', nlines=1, rich=rich)

def gen_mimebundle(r, rich=True, attachment=False):
    if attachment:
        mts = r.sample(B64_MIMES + ['image/svg+xml', 'image/PNG'], r.choice([1, 1, 1, 2]))
    elif not rich:
        mts = ['text/plain'] + r.sample(['text/html', 'image/png', 'application/json'], r.choice([0, 0, 1]))
    else:
        mts = ['text/plain'] if r.random() < 0.85 else []
        pool = TEXT_MIMES[1:] + B64_MIMES + B64_MIMES + JSON_MIMES + JSON_MIMES
        mts += r.sample(pool, r.choice([0, 0, 1, 1, 2, 3]))
        if r.random() < 0.07: mts.append(r.choice(UPPER_MIMES))
        mts = list(dict.fromkeys(mts))
    return {mt: gen_mime_value(r, mt, rich) for mt in mts}

def gen_output_metadata(r, data, rich=True):
    md = {}
    if not rich: return md if r.random() < 0.8 else {'k': r.choice([1, 1.0, True])}
    if r.random() < 0.6: return md
    for mt in data:
        if mt.lower() in B64_MIMES and r.random() < 0.6:
            md[mt] = {'width': r.choice([320, 640, 640.0]), 'height': r.choice([240, 480])}
        elif r.random() < 0.1: md[mt] = {'isolated': r.choice([True, False])}
    if r.random() < 0.3: md['needs_background'] = r.choice(['light', 'dark'])
    if r.random() < 0.3: md['isolated'] = r.choice([True, False])
    if r.random() < 0.3:
        k = r.choice(FREE_KEYS); md[k] = gen_free_value(r, k)
    return md

def gen_traceback(r, ename, evalue):
    esc = chr(0x1b)
    tb = [esc + '[0;31m' + '-' * 40 + esc + '[0m', esc + '[0;31m' + ename + esc + '[0m Traceback (most recent call last)']
    for _ in range(r.choice([0, 1, 2, 3])):
        tb.append('<ipython-input-%d-%s> in <module>\n----> %d %s' % (r.randint(1, 50), ''.join(r.choice(HEX) for _ in range(12)),
                                                                     r.randint(1, 9), gen_line(r, 'code')))
    tb.append(ename + ': ' + evalue)
    return tb

def gen_output(r, execution_count=None, rich=True, kind=None):
    if kind is None:
        kind = r.choice(['stream', 'stream', 'stream', 'execute_result', 'execute_result', 'display_data', 'display_data', 'error'])
    if kind == 'stream':
        text = gen_source(r, 'code', nlines=r.choice([1, 1, 2, 3, 6]) if rich else r.choice([1, 2]), rich=rich)
        if rich and r.random() < 0.1: text += gen_pointer_repr(r) + '\n'
        return {'output_type': 'stream', 'name': 'stdout' if r.random() < 0.75 else 'stderr', 'text': text}
    if kind == 'error':
        en = r.choice(ENAMES); ev = r.choice(['division by zero', "name 'x' is not defined", "'key'", 'bad value ' + str(r.randint(0, 9)), ''])
        return {'output_type': 'error', 'ename': en, 'evalue': ev, 'traceback': gen_traceback(r, en, ev)}
    data = gen_mimebundle(r, rich)
    out = {'output_type': kind, 'data': data, 'metadata': gen_output_metadata(r, data, rich)}
    if kind == 'execute_result':
        out['execution_count'] = execution_count if r.random() < 0.9 else r.choice([None, r.randint(0, 99)])
    return out

def gen_outputs(r, execution_count=None, rich=True):
    n = r.choice([0, 0, 1, 1, 2, 3, 5]) if rich else r.choice([0, 0, 1, 1, 2])
    outs = []
    for i in range(n):
        kind = None
        if i < n - 1: kind = r.choice(['stream', 'stream', 'display_data', 'display_data', 'error'])   # execute_result usually last
        outs.append(gen_output(r, execution_count, rich, kind))
    if rich and len(outs) >= 1 and r.random() < 0.1: outs.append(copy.deepcopy(outs[0]))   # identical repeated outputs
    return outs

def gen_attachments(r):
    names = r.sample(['image.png', 'fig1.png', 'photo.jpg', 'plot.svg', 'sp ace.png'], r.choice([1, 1, 2]))
    return {n: gen_mimebundle(r, attachment=True) for n in names}

# ---------------------------------------------------------------- cells and notebooks
def gen_cell(r, minor=4, used=None, rich=True, kind=None):
    if kind is None: kind = r.choice(['code', 'code', 'code', 'markdown', 'markdown', 'raw']) if rich else r.choice(['code', 'code', 'markdown'])
    cell = {'cell_type': kind}
    if minor >= 5: cell['id'] = gen_id(r, used if used is not None else set())
    cell['metadata'] = gen_cell_metadata(r, kind, minor, rich)
    cell['source'] = gen_source(r, kind, rich=rich)
    if kind == 'code':
        ec = r.choice([None, None, r.randint(0, 3), r.randint(1, 60), r.randint(1, 60)])
        cell['execution_count'] = ec
        cell['outputs'] = gen_outputs(r, ec, rich) if (ec is not None or r.random() < 0.3) else []
    elif rich and ((kind == 'markdown' and r.random() < 0.2) or (kind == 'raw' and r.random() < 0.08)):
        cell['attachments'] = gen_attachments(r)
        if kind == 'markdown' and r.random() < 0.7:
            cell['source'] += ('' if cell['source'].endswith('\n') or not cell['source'] else '\n') + \
                '![img](attachment:' + sorted(cell['attachments'])[0] + ')'
    return cell

def gen_notebook(r, minor=None, ncells=None, with_ids=None, rich=True):
    """Schema-valid v4 notebook.  Cell ids are present iff minor >= 5 (required by 4.5, forbidden before).  with_ids
    only steers the choice of minor when minor is None (True -> 5, False -> 0..4); an explicit minor wins."""
    if minor is None:
        if with_ids is True: minor = 5
        elif with_ids is False: minor = r.choice([0, 1, 2, 3, 4, 4, 4])
        else: minor = r.choice([0, 1, 2, 3, 4, 4, 4, 5, 5, 5])
    exact = ncells is not None
    if ncells is None:
        ncells = r.choice([0, 1, 2, 3, 4, 5, 6, 8, 12]) if rich else r.choice([0, 1, 2, 2, 3, 4])
    used = set()
    nb = {'cells': [gen_cell(r, minor, used, rich) for _ in range(ncells)],
          'metadata': gen_nb_metadata(r, rich), 'nbformat': 4, 'nbformat_minor': minor}
    if rich and not exact and len(nb['cells']) >= 2 and r.random() < 0.15:   # repeated identical cells (fresh ids)
        i = r.randrange(len(nb['cells'])); c = copy.deepcopy(nb['cells'][i])
        if 'id' in c: c['id'] = gen_id(r, used)
        nb['cells'].insert(r.randint(0, len(nb['cells'])), c)
    return nb

# ---------------------------------------------------------------- edits of parts (all in place, on copies)
def _retype(v):
    """type-only change along the cycles 1 -> 1.0 -> True -> 1 and 0 -> 0.0 -> False -> 0; other numbers int <-> float"""
    if v is True: return 1
    if v is False: return 0
    if isinstance(v, int):
        if v in (0, 1): return float(v)
        return float(v) if abs(v) < 2 ** 53 else v
    if isinstance(v, float):
        if v == 1.0: return True
        if v == 0.0: return False
        if v == int(v) and abs(v) < 2 ** 53: return int(v)
    return v

def _num_paths(v, path=()):
    if isinstance(v, (bool, int, float)): yield path
    elif isinstance(v, list):
        for i, x in enumerate(v): yield from _num_paths(x, path + (i,))
    elif isinstance(v, dict):
        for k in sorted(v): yield from _num_paths(v[k], path + (k,))

def _retype_somewhere(r, container, key):
    """type-only change of one numeric/bool leaf below container[key]; returns True if something changed"""
    paths = list(_num_paths(container[key]))
    r.shuffle(paths)
    for p in paths:
        holder, k = container, key
        for step in p: holder, k = holder[k], step
        old = holder[k]; new = _retype(old)
        if type(new) is not type(old):
            holder[k] = new; return True
    return False

def _change_value(r, v, key=None):
    for _ in range(5):
        if isinstance(v, (list, dict, str)) and r.random() < 0.8: w = _json_safe(genjson.mutate(r, v, 2))
        else: w = gen_free_value(r, key)
        if _canon(w) != _canon(v): return w
    return [v, 'changed']

def _canon(v):
    """type-strict canonical form (distinguishes 1 / 1.0 / True)"""
    if isinstance(v, dict): return ('d',) + tuple((k, _canon(v[k])) for k in sorted(v))
    if isinstance(v, list): return ('l',) + tuple(_canon(x) for x in v)
    return (type(v).__name__, repr(v))

def edit_free_metadata(r, md, reserved, key=None, how=None):
    """add / remove / change / retype a free-form key of md (in place).  Always changes md."""
    free = sorted(k for k in md if k not in reserved)
    if how is None: how = r.choice(['add', 'add', 'remove', 'retype', 'change', 'change'])
    if key is not None and key in md and how == 'add': how = 'change'
    if how != 'add' and not free and key is None: how = 'add'
    if how == 'add':
        k = key or r.choice([k for k in FREE_KEYS if k not in md] or FREE_KEYS)
        if k in md: md[k] = _change_value(r, md[k], k)
        else: md[k] = gen_free_value(r, k)
        return k
    k = key if key is not None else r.choice(free)
    if k not in md: md[k] = gen_free_value(r, k); return k
    if how == 'remove': del md[k]
    elif how == 'retype':
        if not _retype_somewhere(r, md, k): md[k] = _change_value(r, md[k], k)
    else: md[k] = _change_value(r, md[k], k)
    return k

def edit_cell_metadata(r, cell, key=None):
    """schema-aware edit of a cell's metadata (in place); always a change"""
    md = cell['metadata']; kind = cell['cell_type']
    c = r.random()
    if key is not None and key not in CELL_MD_RESERVED: return edit_free_metadata(r, md, CELL_MD_RESERVED, key=key)
    if key == 'tags' or (key is None and c < 0.2):
        tags = list(md.get('tags', []))
        cand = [t for t in TAGS if t not in tags]
        if tags and (not cand or r.random() < 0.4): tags.pop(r.randrange(len(tags)))
        else: tags.insert(r.randint(0, len(tags)), r.choice(cand))
        if 'tags' in md and not tags and r.random() < 0.5: del md['tags']
        else: md['tags'] = tags
        return 'tags'
    if key == 'collapsed' or (key is None and c < 0.3):
        if 'collapsed' in md and r.random() < 0.3: del md['collapsed']
        else: md['collapsed'] = not md.get('collapsed', False)
        return 'collapsed'
    if key == 'scrolled' or (key is None and c < 0.38 and kind == 'code'):
        old = md.get('scrolled', None)
        md['scrolled'] = r.choice([x for x in (True, False, 'auto') if _canon(x) != _canon(old)])
        return 'scrolled'
    if key == 'jupyter' or (key is None and c < 0.48):
        j = md.setdefault('jupyter', {})
        if not isinstance(j, dict): j = md['jupyter'] = {}
        f = r.choice(['source_hidden', 'outputs_hidden'] if kind == 'code' else ['source_hidden'])
        j[f] = not j.get(f, False)
        return 'jupyter'
    if key == 'name':
        md['name'] = (md.get('name') or 'cell') + str(r.randint(0, 9)); return 'name'
    return edit_free_metadata(r, md, CELL_MD_RESERVED)

def edit_output_metadata(r, out, key=None):
    if out['output_type'] not in ('display_data', 'execute_result'): return None
    md = out['metadata']
    mts = sorted(k for k in md if '/' in k and isinstance(md[k], dict) and k in out['data'])
    if key is None and mts and r.random() < 0.4:
        k = r.choice(mts); sub = md[k]
        if 'width' in sub: sub['width'] = _retype(sub['width']) if r.random() < 0.4 else sub['width'] + r.choice([1, 10, 100])
        else: sub['isolated'] = not sub.get('isolated', False)
        return k
    return edit_free_metadata(r, md, (), key=key)

def edit_mime_value(r, mt, v):
    if mt in JSON_MIMES or not isinstance(v, str):
        if r.random() < 0.3:
            box = {'v': v}
            if _retype_somewhere(r, box, 'v'): return box['v']
        return _change_value(r, v)
    if mt.lower() in B64_MIMES: return edit_b64(r, v)
    if '0x' in v and r.random() < 0.7: return _repoint(r, v)
    return edit_source_text(r, v, 'code', r.choice(['tiny', 'tiny', 'line', 'half', 'rewrite']))

def _repoint(r, s):
    """replace every hex address after 0x by a fresh one of the same length"""
    out, i = [], 0
    while i < len(s):
        if s.startswith('0x', i):
            j = i + 2
            while j < len(s) and s[j] in '0123456789abcdefABCDEF': j += 1
            old = s[i + 2:j]; new = old
            while new == old and old: new = ''.join(r.choice(HEX) for _ in old)
            out.append('0x' + new); i = j
        else: out.append(s[i]); i += 1
    return ''.join(out)

def edit_output(r, out, what=None):
    """edit one output in place (always a change)"""
    t = out['output_type']
    if t == 'stream':
        if what == 'name' or (what is None and r.random() < 0.1): out['name'] = 'stderr' if out['name'] == 'stdout' else 'stdout'
        elif '0x' in out['text'] and r.random() < 0.5: out['text'] = _repoint(r, out['text'])
        else: out['text'] = edit_source_text(r, out['text'], 'code', r.choice(['tiny', 'tiny', 'line', 'line', 'half', 'rewrite']))
    elif t == 'error':
        c = r.random()
        if c < 0.3:
            out['ename'] = r.choice([e for e in ENAMES if e != out['ename']])
            out['traceback'] = gen_traceback(r, out['ename'], out['evalue'])
        elif c < 0.7:
            out['evalue'] = out['evalue'] + ' ' + str(r.randint(0, 99))
            out['traceback'] = out['traceback'][:-1] + [out['ename'] + ': ' + out['evalue']]
        else:
            tb = out['traceback']
            if tb and r.random() < 0.7: i = r.randrange(len(tb)); tb[i] = edit_source_text(r, tb[i], 'code', 'tiny')
            else: tb.insert(r.randint(0, len(tb)), '<ipython-input-%d> in g()' % r.randint(1, 99))
    else:
        data = out['data']; c = r.random()
        if what == 'metadata' or (what is None and c < 0.15): edit_output_metadata(r, out)
        elif what is None and c < 0.3 and len(data) > 1:
            k = r.choice(sorted(data)); del data[k]; out['metadata'].pop(k, None)
        elif what is None and (c < 0.45 or not data):
            cand = [m for m in TEXT_MIMES + B64_MIMES + JSON_MIMES if m not in data]
            k = r.choice(cand); data[k] = gen_mime_value(r, k)
        else:
            k = what if what in data else r.choice(sorted(data)); data[k] = edit_mime_value(r, k, data[k])
    return out

def edit_outputs(r, cell):
    """edit the outputs list of a code cell in place (always a change)"""
    outs = cell['outputs']; c = r.random()
    if not outs or c < 0.15:
        outs.insert(r.randint(0, len(outs)), gen_output(r, cell['execution_count'])); return
    if c < 0.3: del outs[r.randrange(len(outs))]; return
    if c < 0.37 and len(outs) > 1:
        before = _canon(outs); i = r.randrange(len(outs)); o = outs.pop(i); outs.insert(r.randint(0, len(outs)), o)
        if _canon(outs) != before: return
    edit_output(r, outs[r.randrange(len(outs))])

def rerun_cell(r, cell):
    """as if the cell had been executed again: new execution_count, outputs similar but not identical"""
    old = cell['execution_count']
    new = (old or 0) + r.choice([1, 1, 2, 5, 17])
    cell['execution_count'] = new
    outs = cell['outputs']
    if not outs and r.random() < 0.5: outs.append(gen_output(r, new))
    for o in outs:
        if o['output_type'] == 'execute_result': o['execution_count'] = new
        c = r.random()
        if o['output_type'] == 'stream':
            if '0x' in o['text']: o['text'] = _repoint(r, o['text'])
            elif c < 0.4: o['text'] = edit_source_text(r, o['text'], 'code', r.choice(['tiny', 'line']))
        elif o['output_type'] in ('display_data', 'execute_result'):
            for k in sorted(o['data']):
                v = o['data'][k]
                if isinstance(v, str) and '0x' in v: o['data'][k] = _repoint(r, v)
                elif k.lower() in B64_MIMES and c < 0.5: o['data'][k] = edit_b64(r, v)
                elif k == 'text/plain' and c < 0.3: o['data'][k] = edit_source_text(r, v, 'code', 'tiny')
        elif c < 0.3: edit_output(r, o)
    if 'execution' in cell['metadata']:
        cell['metadata']['execution'] = {k: v[:-4] + '%03dZ' % r.randint(0, 999) for k, v in cell['metadata']['execution'].items()}

def clear_cell_outputs(cell):
    cell['outputs'] = []; cell['execution_count'] = None

def edit_attachments(r, cell, name=None):
    """add / remove / change an attachment of a markdown or raw cell in place (always a change)"""
    att = cell.get('attachments')
    if not att:
        cell['attachments'] = gen_attachments(r); return
    c = r.random()
    n = name if name in att else r.choice(sorted(att))
    if name is None and c < 0.25:
        new = r.choice([x for x in ['image.png', 'fig1.png', 'photo.jpg', 'plot.svg', 'new.png', 'z.png'] if x not in att])
        att[new] = gen_mimebundle(r, attachment=True)
    elif name is None and c < 0.45:
        del att[n]
        if not att and r.random() < 0.5: del cell['attachments']
    else:
        b = att[n]
        if not b: b['image/png'] = gen_b64(r)
        else:
            k = r.choice(sorted(b)); b[k] = edit_mime_value(r, k, b[k])

def change_cell_type(r, cell, to=None):
    """convert the cell in place to another type, keeping id / source / metadata"""
    old = cell['cell_type']
    new = to or r.choice([k for k in ('code', 'markdown', 'raw') if k != old])
    cell['cell_type'] = new
    if new == 'code':
        cell.pop('attachments', None); cell['execution_count'] = None; cell['outputs'] = []
    else:
        cell.pop('outputs', None); cell.pop('execution_count', None)
    return cell

def edit_nb_metadata(r, nb, key=None):
    md = nb['metadata']; c = r.random()
    if key is not None and key not in NB_MD_RESERVED: return edit_free_metadata(r, md, NB_MD_RESERVED, key=key)
    if key == 'kernelspec' or (key is None and c < 0.3):
        ks = md.get('kernelspec')
        if ks is None: md['kernelspec'] = {'display_name': 'Python 3', 'language': 'python', 'name': 'python3'}
        elif key is None and r.random() < 0.15: del md['kernelspec']
        else:
            f = r.choice(['display_name', 'name'])
            ks[f] = ks[f] + r.choice([' (new)', '-env', '.1', ' ' + str(r.randint(0, 99))])
        return 'kernelspec'
    if key == 'language_info' or (key is None and c < 0.6):
        li = md.get('language_info')
        if li is None: md['language_info'] = {'name': 'python', 'version': '3.9.' + str(r.randint(0, 20))}
        elif key is None and r.random() < 0.1: del md['language_info']
        elif r.random() < 0.6: li['version'] = str(li.get('version', '3.0')) + r.choice(['.1', 'rc1', '+'])
        else:
            cm = li.get('codemirror_mode')
            if isinstance(cm, dict): li['codemirror_mode'] = r.choice(['python', dict(cm, version=cm.get('version', 3) + 1)])
            elif cm is None: li['codemirror_mode'] = {'name': 'ipython', 'version': 3}
            else: li['codemirror_mode'] = {'name': cm, 'version': 3}
        return 'language_info'
    if key == 'title': md['title'] = md.get('title', 'T') + '!'; return 'title'
    return edit_free_metadata(r, md, NB_MD_RESERVED)

# ---------------------------------------------------------------- edit scripts on notebooks
def _is_code(c): return c['cell_type'] == 'code'
def _is_text(c): return c['cell_type'] in ('markdown', 'raw')

def apply_edit(r, nb, op, used, index=None, rich=True):
    """apply ONE edit operation to nb in place; returns True when it was applicable.  `used` is the set of cell ids
    that must not be reused (updated)."""
    cells = nb['cells']; minor = nb['nbformat_minor']
    def pick(pred=None):
        idx = [i for i, c in enumerate(cells) if pred is None or pred(c)]
        if index is not None: return index if index in idx else None
        return r.choice(idx) if idx else None
    if op == 'insert':
        pos = min(index, len(cells)) if index is not None else r.randint(0, len(cells))
        cells.insert(pos, gen_cell(r, minor, used, rich)); return True
    if op == 'nb_metadata':
        edit_nb_metadata(r, nb); return True
    if op == 'delete':
        i = pick()
        if i is None: return False
        del cells[i]; return True
    if op == 'move':
        if len(cells) < 2: return False
        i = pick()
        if i is None: return False
        c = cells.pop(i)
        j = r.choice([k for k in range(len(cells) + 1) if k != i]); cells.insert(j, c); return True
    if op == 'duplicate':
        i = pick()
        if i is None: return False
        c = copy.deepcopy(cells[i])
        if 'id' in c: c['id'] = gen_id(r, used)
        cells.insert(r.choice([i + 1, i + 1, r.randint(0, len(cells))]), c); return True
    if op == 'edit_source':
        i = pick()
        if i is None: return False
        cells[i]['source'] = edit_source_text(r, cells[i]['source'], cells[i]['cell_type']); return True
    if op == 'edit_outputs':
        i = pick(_is_code)
        if i is None: return False
        edit_outputs(r, cells[i]); return True
    if op == 'edit_metadata':
        c = r.random()
        if c < 0.2: edit_nb_metadata(r, nb); return True
        if c < 0.45:
            cand = [(i, j) for i, cl in enumerate(cells) if _is_code(cl) and (index is None or i == index)
                    for j, o in enumerate(cl['outputs']) if o['output_type'] in ('display_data', 'execute_result')]
            if cand:
                i, j = r.choice(cand); edit_output_metadata(r, cells[i]['outputs'][j]); return True
        i = pick()
        if i is None: edit_nb_metadata(r, nb); return True
        edit_cell_metadata(r, cells[i]); return True
    if op == 'edit_attachments':
        i = pick(lambda c: _is_text(c) and c.get('attachments'))
        if i is None or r.random() < 0.2: i = pick(_is_text)
        if i is None: return False
        edit_attachments(r, cells[i]); return True
    if op == 'clear_outputs':
        i = pick(lambda c: _is_code(c) and (c['outputs'] or c['execution_count'] is not None))
        if i is None: return False
        if index is None and r.random() < 0.3:
            for c in cells:
                if _is_code(c): clear_cell_outputs(c)
        else: clear_cell_outputs(cells[i])
        return True
    if op == 'rerun':
        i = pick(_is_code)
        if i is None: return False
        if index is None and r.random() < 0.3:   # "run all": consecutive execution counts
            n = 0
            for c in cells:
                if _is_code(c):
                    rerun_cell(r, c); n += 1; c['execution_count'] = n
                    for o in c['outputs']:
                        if o['output_type'] == 'execute_result': o['execution_count'] = n
        else: rerun_cell(r, cells[i])
        return True
    if op == 'change_type':
        i = pick()
        if i is None: return False
        change_cell_type(r, cells[i]); return True
    raise ValueError('unknown edit operation ' + repr(op))

EDIT_WEIGHTS = {'insert': 3, 'delete': 3, 'move': 1, 'duplicate': 1, 'edit_source': 5, 'edit_outputs': 3,
                'edit_metadata': 3, 'edit_attachments': 1, 'clear_outputs': 1, 'rerun': 2, 'change_type': 1,
                'nb_metadata': 1}

def edit_notebook(r, nb, intensity=1, allow=ALL_EDITS, used=None, rich=True):
    """New notebook derived from nb by a random edit script (nb itself is untouched); valid for the same minor version.
    intensity scales the number of operations (0 -> identical copy).  `used`: extra ids to avoid (updated)."""
    new = copy.deepcopy(nb)
    if used is None: used = set()
    used |= used_ids(nb)
    ops = [o for o in ALL_EDITS if o in allow]
    if not ops or intensity <= 0: return new
    weights = [EDIT_WEIGHTS[o] for o in ops]
    n = r.choice([1, 1, 2, 2, 3, 4]) * intensity
    done = tries = 0
    while done < n and tries < 4 * n + 8:
        tries += 1
        if apply_edit(r, new, r.choices(ops, weights)[0], used, rich=rich): done += 1
    return new

def gen_pair(r, **kw):
    """(a, b): b mostly an edited a, sometimes an unrelated notebook of the same minor, sometimes identical.
    kw: gen_notebook arguments plus intensity / allow for the edit script."""
    intensity = kw.pop('intensity', None); allow = kw.pop('allow', ALL_EDITS)
    a = gen_notebook(r, **kw)
    rich = kw.get('rich', True)
    c = r.random()
    if c < 0.07: b = copy.deepcopy(a)
    elif c < 0.87: b = edit_notebook(r, a, intensity if intensity is not None else r.choice([1, 1, 1, 2, 3]), allow, rich=rich)
    else:
        kw2 = dict(kw); kw2['minor'] = a['nbformat_minor']; kw2.pop('with_ids', None)
        b = gen_notebook(r, **kw2)
        if has_ids(a) and r.random() < 0.5:     # unrelated content that happens to share some cell ids
            for ca, cb in zip(a['cells'], b['cells']):
                if r.random() < 0.5 and ca['id'] not in used_ids(b): cb['id'] = ca['id']
    return a, b

# ---------------------------------------------------------------- three-way
CONFLICT_KINDS = ('source_source', 'delete_edit', 'edit_delete', 'insert_insert_similar', 'insert_insert_different',
                  'output_output', 'metadata_metadata', 'nb_metadata', 'attachment_attachment', 'outputs_rerun',
                  'delete_delete_edit_neighbour', 'type_source')

def force_conflict(r, base, local, remote, used, kind=None):
    """apply colliding edits to local / remote in place.  Only cells that are still untouched copies of the base cell
    on both sides (and only while the cell lists are still aligned with base) are used.  Returns the kind applied or
    None when there is no place for it."""
    kind = kind or r.choice(CONFLICT_KINDS)
    minor = base['nbformat_minor']
    if kind == 'nb_metadata':
        k = edit_nb_metadata(r, local)
        edit_nb_metadata(r, remote, key=k)
        return kind
    n = len(base['cells'])
    if len(local['cells']) != n or len(remote['cells']) != n: return None
    if kind.startswith('insert_insert'):
        pos = r.randint(0, n)
        c1 = gen_cell(r, minor, used)
        if kind.endswith('similar'):
            c2 = copy.deepcopy(c1)
            if 'id' in c2: c2['id'] = gen_id(r, used)
            if r.random() < 0.7: c2['source'] = edit_source_text(r, c2['source'], c2['cell_type'], r.choice(['tiny', 'line']))
        else: c2 = gen_cell(r, minor, used)
        local['cells'].insert(pos, c1); remote['cells'].insert(pos, c2)
        return kind
    def fresh(i):
        k = _canon(base['cells'][i])
        return _canon(local['cells'][i]) == k and _canon(remote['cells'][i]) == k
    cand = [i for i in range(n) if fresh(i)]
    if kind in ('output_output', 'outputs_rerun'):
        cand = [i for i in cand if _is_code(base['cells'][i]) and base['cells'][i]['outputs']]
    elif kind == 'attachment_attachment':
        cand = [i for i in cand if _is_text(base['cells'][i])]
        cand = [i for i in cand if base['cells'][i].get('attachments')] or cand
    elif kind == 'delete_delete_edit_neighbour':
        cand = [i for i in cand if i + 1 in cand]
    if not cand: return None
    i = r.choice(cand); cb = base['cells'][i]; cl = local['cells'][i]; cr = remote['cells'][i]
    t = cb['cell_type']
    if kind == 'source_source':
        cl['source'] = edit_source_text(r, cb['source'], t)
        for _ in range(5):
            cr['source'] = edit_source_text(r, cb['source'], t)
            if cr['source'] != cl['source']: break
        return kind
    if kind in ('delete_edit', 'edit_delete'):
        d, e = (local, remote) if kind == 'delete_edit' else (remote, local)
        ce = e['cells'][i]; c = r.random()
        if c < 0.5 or t != 'code': ce['source'] = edit_source_text(r, cb['source'], t)
        elif c < 0.75: edit_outputs(r, ce)
        else: edit_cell_metadata(r, ce)
        del d['cells'][i]
        return kind
    if kind == 'delete_delete_edit_neighbour':
        nb_cell = base['cells'][i + 1]
        del local['cells'][i]
        remote['cells'][i + 1]['source'] = edit_source_text(r, nb_cell['source'], nb_cell['cell_type'])
        del remote['cells'][i]
        return kind
    if kind == 'type_source':
        change_cell_type(r, cl)
        cr['source'] = edit_source_text(r, cb['source'], t)
        return kind
    if kind == 'metadata_metadata':
        outs = [j for j, o in enumerate(cb.get('outputs', [])) if o['output_type'] in ('display_data', 'execute_result')]
        if outs and r.random() < 0.35:
            j = r.choice(outs)
            k = edit_output_metadata(r, cl['outputs'][j])
            edit_output_metadata(r, cr['outputs'][j], key=k)
        else:
            k = edit_cell_metadata(r, cl)
            edit_cell_metadata(r, cr, key=k)
        return kind
    if kind == 'outputs_rerun':
        rerun_cell(r, cl)
        if r.random() < 0.7: rerun_cell(r, cr)
        else: clear_cell_outputs(cr)
        return kind
    if kind == 'output_output':
        j = r.randrange(len(cb['outputs'])); o = cb['outputs'][j]
        what = None
        if o['output_type'] in ('display_data', 'execute_result') and o['data']: what = r.choice(sorted(o['data']))
        edit_output(r, cl['outputs'][j], what)
        if r.random() < 0.2: del cr['outputs'][j]
        else:
            for _ in range(5):
                cr['outputs'][j] = copy.deepcopy(o); edit_output(r, cr['outputs'][j], what)
                if _canon(cr['outputs'][j]) != _canon(cl['outputs'][j]): break
        return kind
    if kind == 'attachment_attachment':
        if cb.get('attachments'):
            name = r.choice(sorted(cb['attachments']))
            edit_attachments(r, cl, name)
            if r.random() < 0.25: del cr['attachments'][name]
            else: edit_attachments(r, cr, name)
        else:   # both add an attachment under the same file name
            cl['attachments'] = {'image.png': gen_mimebundle(r, attachment=True)}
            cr['attachments'] = {'image.png': gen_mimebundle(r, attachment=True)}
        return kind
    return None

def gen_triple(r, conflict_bias=0.5, **kw):
    """(base, local, remote): local and remote derived from base by independent edit scripts; with probability
    conflict_bias one or two colliding edits are forced first (see CONFLICT_KINDS)."""
    intensity = kw.pop('intensity', None); allow = kw.pop('allow', ALL_EDITS)
    rich = kw.get('rich', True)
    base = gen_notebook(r, **kw)
    used = used_ids(base)
    local = copy.deepcopy(base); remote = copy.deepcopy(base)
    forced = False
    if r.random() < conflict_bias:
        for _ in range(r.choice([1, 1, 2])):
            for _try in range(6):
                if force_conflict(r, base, local, remote, used) is not None:
                    forced = True; break
    def side(nb):
        c = r.random()
        if forced and c < 0.5: return nb
        if not forced and c < 0.05: return nb
        k = intensity if intensity is not None else r.choice([1, 1, 1, 2])
        return edit_notebook(r, nb, k, allow, used=used, rich=rich)
    local = side(local); remote = side(remote)
    return base, local, remote

def _own_edit(r, cell, gentle):
    """edit source / outputs / metadata / execution_count of one cell in place (always a change)"""
    t = cell['cell_type']
    ops = ['source', 'source', 'metadata'] + (['outputs', 'execution_count', 'rerun'] if t == 'code' else [])
    for op in sorted(set(r.sample(ops, r.choice([1, 1, 2])))):    # sorted: set order depends on the hash seed
        if op == 'source':
            mode = r.choice(['tiny', 'tiny', 'line', 'newline']) if gentle else None
            cell['source'] = edit_source_text(r, cell['source'], t, mode)
        elif op == 'metadata': edit_cell_metadata(r, cell)
        elif op == 'outputs': edit_outputs(r, cell)
        elif op == 'execution_count':
            cell['execution_count'] = (cell['execution_count'] or 0) + r.choice([1, 2, 10])
        else: rerun_cell(r, cell)

def gen_disjoint_triple(r, **kw):
    """(base, local, remote, expected).  base's cells (>= 2) are partitioned into local-owned, remote-owned and
    untouched; each side edits / deletes only its own cells and may insert new cells only into gaps whose neighbouring
    base cells the OTHER side did not touch (never both sides into one gap).  expected = base with all changes of both
    sides applied, built directly.  kw: gen_notebook arguments, gentle (default True: edits keep cells similar),
    p_insert (default 0.25), p_delete (default 0.2)."""
    gentle = kw.pop('gentle', True); p_insert = kw.pop('p_insert', 0.25); p_delete = kw.pop('p_delete', 0.2)
    rich = kw.get('rich', True)
    if kw.get('ncells') is None: kw['ncells'] = r.choice([2, 2, 3, 4, 5, 6, 8]) if rich else r.choice([2, 2, 3, 4])
    kw['ncells'] = max(2, kw['ncells'])
    base = gen_notebook(r, **kw)
    n = len(base['cells']); minor = base['nbformat_minor']
    used = used_ids(base)
    owner = [r.choice('LR-') for _ in range(n)]
    if 'L' not in owner: owner[r.randrange(n)] = 'L'
    if 'R' not in owner: owner[r.choice([i for i in range(n) if owner[i] != 'L'] or [0])] = 'R'
    action, newcell = [], []
    for i in range(n):
        if owner[i] == '-' or r.random() < 0.15: action.append('keep'); newcell.append(None); continue
        if r.random() < p_delete: action.append('delete'); newcell.append(None); continue
        c = copy.deepcopy(base['cells'][i]); _own_edit(r, c, gentle)
        action.append('edit'); newcell.append(c)
    touched = [owner[i] if action[i] != 'keep' else '-' for i in range(n)]
    def may_insert(s, g):
        # in side s's own notebook the new cells must not end up next to a cell the other side touched: look past
        # the cells s itself deletes on both sides of the gap
        o = 'R' if s == 'L' else 'L'
        j = g - 1
        while j >= 0 and touched[j] == s and action[j] == 'delete': j -= 1
        if j >= 0 and touched[j] == o: return False
        j = g
        while j < n and touched[j] == s and action[j] == 'delete': j += 1
        return not (j < n and touched[j] == o)
    inserts = {}
    for g in range(n + 1):
        if r.random() >= p_insert: continue
        cands = [s for s in 'LR' if may_insert(s, g)]
        if not cands: continue
        s = r.choice(cands)
        inserts[g] = (s, [gen_cell(r, minor, used, rich) for _ in range(r.choice([1, 1, 2]))])
    def build(sides):
        cells = []
        for i in range(n + 1):
            if i in inserts and inserts[i][0] in sides: cells.extend(copy.deepcopy(inserts[i][1]))
            if i == n: break
            if owner[i] in sides and action[i] == 'delete': continue
            if owner[i] in sides and action[i] == 'edit': cells.append(copy.deepcopy(newcell[i]))
            else: cells.append(copy.deepcopy(base['cells'][i]))
        nb = copy.deepcopy(base); nb['cells'] = cells
        return nb
    return base, build('L'), build('R'), build('LR')

# ---------------------------------------------------------------- exhaustive small scope
def small_cells(alphabet=('a\n', 'b\n', 'c\n'), max_lines=2):
    sources = [''.join(c) for n in range(max_lines + 1) for c in itertools.product(alphabet, repeat=n)]
    out = []
    for s in sources:
        out.append({'cell_type': 'markdown', 'metadata': {}, 'source': s})
        out.append({'cell_type': 'code', 'metadata': {}, 'source': s, 'execution_count': None, 'outputs': []})
        out.append({'cell_type': 'code', 'metadata': {}, 'source': s, 'execution_count': None,
                    'outputs': [{'output_type': 'stream', 'name': 'stdout', 'text': alphabet[0] if alphabet else 'a\n'}]})
    return out

def small_notebooks(max_cells=2, alphabet=('a\n', 'b\n', 'c\n')):
    """all notebooks (minor 4, no ids) with at most max_cells cells drawn from small_cells(alphabet)"""
    cells = small_cells(alphabet)
    for n in range(max_cells + 1):
        for combo in itertools.product(cells, repeat=n):
            yield {'cells': [copy.deepcopy(c) for c in combo], 'metadata': {}, 'nbformat': 4, 'nbformat_minor': 4}


def crafted_mime_pairs():
    """deterministic notebook pairs that differ inside mime bundles whose keys are not lower case (text, json and
    binary kinds; outputs and attachments): every branch of add_mime_diff (nested patch / replace) with a key that
    differs from its lower-cased form"""
    def nb(cells): return {'cells': cells, 'metadata': {}, 'nbformat': 4, 'nbformat_minor': 4}
    def code(outs): return {'cell_type': 'code', 'execution_count': 1, 'metadata': {}, 'outputs': outs, 'source': 'x'}
    def disp(data): return {'output_type': 'display_data', 'data': data, 'metadata': {}}
    def md(att): return {'cell_type': 'markdown', 'metadata': {}, 'source': '![i](attachment:i.png)', 'attachments': att}
    out = []
    for key, va, vb in [('text/HTML', '<b>a</b>\n<i>b</i>\n', '<b>a</b>\n<i>c</i>\n'), ('Text/Plain', 'one\ntwo', 'one\n2'),
                        ('Application/JSON', {'k': [1, 2]}, {'k': [1, 3]}), ('image/PNG', 'aGVsbG8=', 'd29ybGQ='),
                        ('IMAGE/svg+xml', '<svg>\n<a/>\n</svg>', '<svg>\n<b/>\n</svg>'), ('text/X-custom', 'p\nq\n', 'p\nr\n')]:
        out.append((nb([code([disp({'text/plain': 't', key: va})])]), nb([code([disp({'text/plain': 't', key: vb})])])))
        out.append((nb([md({'i.png': {key: va}})]), nb([md({'i.png': {key: vb}})])))
    # members whose value is a legal but falsy / null JSON payload, unchanged and changed, next to other changes
    for payload in (None, 0, False, '', [], {}):
        for other_a, other_b in (('t', 't'), ('t', 'u')):
            a = nb([code([disp({'text/plain': other_a, 'application/json': payload})])])
            out.append((a, nb([code([disp({'text/plain': other_b, 'application/json': payload})])])))
            out.append((a, nb([code([disp({'text/plain': other_b, 'application/json': {'k': payload}})])])))
            out.append((nb([code([disp({'text/plain': other_a, 'application/json': {'k': 1}})])]), nb([code([disp({'text/plain': other_b, 'application/json': payload})])])))
    return out

def crafted_retype_pairs():
    """deterministic notebook pairs whose ONLY difference is the JSON type of number/bool leaves that are equal under
    Python == (1 / 1.0 / True, 0 / 0.0 / -0.0 / False), sitting inside lists of equal length at every place a notebook
    holds free-form lists: notebook metadata, cell metadata, output metadata, JSON mime payloads (flat lists, lists
    of lists, lists of objects, a list holding one list).  Python's == on the whole list calls these lists equal."""
    def nb(cells, meta=None): return {'cells': cells, 'metadata': meta or {}, 'nbformat': 4, 'nbformat_minor': 4}
    def code(outs, meta=None): return {'cell_type': 'code', 'execution_count': 1, 'metadata': meta or {}, 'outputs': outs, 'source': 'x'}
    def disp(data, meta=None): return {'output_type': 'display_data', 'data': data, 'metadata': meta or {}}
    out = []
    twins = [([1, 2, 3], [1.0, 2, 3]), ([1, 0], [True, False]), ([0.0, 'a'], [-0.0, 'a']), ([True], [1]),
             ([[1, 2], [3]], [[1, 2.0], [3]]), ([{'v': 1}, {'v': 2}], [{'v': 1}, {'v': 2.0}]), ([[[0]]], [[[False]]]),
             (['a', 1, None, 2.0], ['a', 1, None, 2])]
    for va, vb in twins:
        out.append((nb([code([])], {'lists': va}), nb([code([])], {'lists': vb})))
        out.append((nb([code([], {'lists': va})]), nb([code([], {'lists': vb})])))
        out.append((nb([code([disp({'text/plain': 't'}, {'lists': va})])]), nb([code([disp({'text/plain': 't'}, {'lists': vb})])])))
        out.append((nb([code([disp({'text/plain': 't', 'application/json': va})])]), nb([code([disp({'text/plain': 't', 'application/json': vb})])])))
        out.append((nb([code([disp({'text/plain': 't', 'application/json': {'k': va}})])]), nb([code([disp({'text/plain': 't', 'application/json': {'k': vb}})])])))
    return out

# ---------------------------------------------------------------- validation (only for processes allowed to import nbformat)
_VALIDATORS = {}
def validate(nb):
    """list of problems (empty if valid): jsonschema against nbformat's installed v4.<minor> schema, plus the id rules"""
    import os, json
    import nbformat, jsonschema
    probs = []
    minor = nb.get('nbformat_minor')
    if nb.get('nbformat') != 4 or not isinstance(minor, int) or isinstance(minor, bool) or not 0 <= minor <= 5:
        return ['nbformat/nbformat_minor not 4 / 0..5: %r %r' % (nb.get('nbformat'), minor)]
    v = _VALIDATORS.get(minor)
    if v is None:
        path = os.path.join(os.path.dirname(nbformat.__file__), 'v4', 'nbformat.v4.%d.schema.json' % minor)
        with open(path, encoding='utf-8') as f: schema = json.load(f)
        v = _VALIDATORS[minor] = jsonschema.Draft4Validator(schema)
    for e in itertools.islice(v.iter_errors(nb), 10):
        probs.append('schema: %s at %s' % (e.message[:200], '/'.join(str(p) for p in e.absolute_path)))
    ids = [c.get('id') for c in nb.get('cells', []) if isinstance(c, dict) and 'id' in c]
    if len(set(ids)) != len(ids): probs.append('duplicate cell ids')
    if minor < 5 and ids: probs.append('cell ids present in a 4.%d notebook' % minor)
    return probs

# ---------------------------------------------------------------- self test
def _features(nb, h):
    def bump(k): h[k] = h.get(k, 0) + 1
    bump('minor=%d' % nb['nbformat_minor'])
    bump('ncells=%s' % (len(nb['cells']) if len(nb['cells']) < 8 else '8+'))
    for k in nb['metadata']:
        bump('nbmeta:' + (k if k in NB_MD_RESERVED else '<free>'))
    def seps(s, where):
        for ch, name in SEP_NAMES.items():
            if ch in s: bump('sep[%s]:%s' % (where, name))
        if '\r\n' in s: bump('sep[%s]:CRLF' % where)
        if s and not s.endswith(('\n', '\r')): bump('sep[%s]:no-trailing-newline' % where)
        if not s: bump('sep[%s]:empty' % where)
        if any(ord(ch) > 127 for ch in s): bump('text[%s]:non-ascii' % where)
    for c in nb['cells']:
        bump('cell:' + c['cell_type'])
        if 'id' in c: bump('cell:with-id')
        seps(c['source'], 'source')
        for k in c['metadata']: bump('cellmeta:' + (k if k in CELL_MD_RESERVED else '<free>'))
        if 'attachments' in c:
            bump('attachments:cell-' + c['cell_type'])
            for fn, b in c['attachments'].items():
                for mt in b: bump('attachments:mime:' + mt)
        if c['cell_type'] == 'code':
            bump('execution_count:' + ('null' if c['execution_count'] is None else 'int'))
            bump('noutputs=%s' % (len(c['outputs']) if len(c['outputs']) < 4 else '4+'))
            for o in c['outputs']:
                bump('output:' + o['output_type'])
                if o['output_type'] == 'stream':
                    bump('stream:' + o['name']); seps(o['text'], 'stream')
                    if '0x' in o['text']: bump('pointer-repr:stream')
                elif o['output_type'] in ('display_data', 'execute_result'):
                    if o['metadata']: bump('output-metadata:non-empty')
                    if any(k in o['data'] for k in o['metadata']): bump('output-metadata:keyed-by-mimetype')
                    for mt, v in o['data'].items():
                        bump('mime:' + mt)
                        if mt.lower() in B64_MIMES: bump('base64:' + ('>=64' if len(v) >= 64 else '<64'))
                        if mt in JSON_MIMES: bump('json-mime-value:' + type(v).__name__)
                        if isinstance(v, str) and ' at 0x' in v: bump('pointer-repr:data')

def _selftest(nseeds=2000, digest_only=False):
    import sys, json, time, hashlib, os, subprocess, warnings
    t0 = time.time()
    def canon_json(x): return json.dumps(x, sort_keys=True, ensure_ascii=False)
    def make(seed):
        """case number `seed`: kinds cycle notebook / pair / triple / disjoint triple; every 5th case is non-rich"""
        r = random.Random(seed)
        rich = seed % 5 != 0
        k = seed % 4
        if k == 0: return (gen_notebook(r, rich=rich),)
        if k == 1: return gen_pair(r, rich=rich)
        if k == 2: return gen_triple(r, rich=rich)
        return gen_disjoint_triple(r, rich=rich)
    if digest_only:
        hsh = hashlib.sha256()
        for seed in range(nseeds): hsh.update(canon_json(make(seed)).encode('utf-8'))
        print(hsh.hexdigest()); return 0
    import nbformat
    hist, problems, kinds = {}, [], {}
    nvalid = [0, 0]
    def bump(k): kinds[k] = kinds.get(k, 0) + 1
    def check(nb, what, seed, full=True):
        """full: jsonschema on the raw dict + nbformat.validate + round trip; otherwise nbformat.validate + id rules"""
        p = validate(nb) if full else []
        try:
            with warnings.catch_warnings():
                warnings.simplefilter('error')      # nbformat reports duplicate ids as a warning
                nbformat.validate(nbformat.from_dict(nb), version=4, version_minor=nb['nbformat_minor'])
        except Exception as e:
            p.append('nbformat.validate: %s: %s' % (type(e).__name__, str(e)[:300]))
        if full:
            s = json.dumps(nb, ensure_ascii=False).encode('utf-8')      # raises on lone surrogates
            if _canon(json.loads(s.decode('utf-8'))) != _canon(nb): p.append('JSON round trip changes the notebook')
            _features(nb, hist)
        ids = [c['id'] for c in nb['cells'] if 'id' in c]
        if len(ids) != (len(nb['cells']) if has_ids(nb) else 0): p.append('ids do not match minor')
        if len(set(ids)) != len(ids): p.append('duplicate ids')
        for c in nb['cells']:
            if not isinstance(c['source'], str): p.append('source is not one string')
        nvalid[0 if full else 1] += 1
        if p: problems.append((seed, what, p[:3]))
    hsh = hashlib.sha256()
    names = {1: ['notebook'], 2: ['pair.a', 'pair.b'], 3: ['triple.base', 'triple.local', 'triple.remote'],
             4: ['disjoint.base', 'disjoint.local', 'disjoint.remote', 'disjoint.expected']}
    for seed in range(nseeds):
        out = make(seed)
        hsh.update(canon_json(out).encode('utf-8'))
        if canon_json(make(seed)) != canon_json(out): problems.append((seed, 'determinism', ['same seed, different output']))
        for what, x in zip(names[len(out)], out):
            check(x, what, seed)
            if x['nbformat_minor'] != out[0]['nbformat_minor']: problems.append((seed, what, ['nbformat_minor differs within the case']))
        bump('case:' + names[len(out)][0].split('.')[0])
        if len(out) == 2: bump('pair:' + ('identical' if _canon(out[0]) == _canon(out[1]) else 'different'))
        if len(out) >= 3:   # new ids of the two sides never collide
            x, l, m = out[:3]
            bi = used_ids(x)
            if (used_ids(l) - bi) & (used_ids(m) - bi): problems.append((seed, 'ids', ['local and remote introduce the same new id']))
        if len(out) == 3:
            lab = ('local==base ' if _canon(out[1]) == _canon(out[0]) else '') + ('remote==base ' if _canon(out[2]) == _canon(out[0]) else '') \
                + ('local==remote' if _canon(out[1]) == _canon(out[2]) else '')
            bump('triple:' + (lab.strip() or 'all-different'))
        if len(out) == 4:
            dbase, dloc, drem, dexp = out
            seen = set(_canon(c) for x in (dbase, dloc, drem) for c in x['cells'])
            if any(_canon(c) not in seen for c in dexp['cells']): problems.append((seed, 'disjoint', ['expected has an unseen cell']))
            if _canon(dloc) == _canon(dbase) and _canon(dexp) != _canon(drem): problems.append((seed, 'disjoint', ['local unchanged but expected != remote']))
            if _canon(drem) == _canon(dbase) and _canon(dexp) != _canon(dloc): problems.append((seed, 'disjoint', ['remote unchanged but expected != local']))
            if len(dbase['cells']) < 2: problems.append((seed, 'disjoint', ['base has fewer than 2 cells']))
            if _canon(dbase['metadata']) != _canon(dexp['metadata']): problems.append((seed, 'disjoint', ['notebook metadata changed']))
            bump('disjoint:len(expected)-len(base)=%+d' % (len(dexp['cells']) - len(dbase['cells'])))
        # edit scripts: inputs are not mutated, every single operation keeps validity
        nb = out[0]
        r = random.Random(seed + 10 ** 6)
        snap = canon_json(nb)
        e = edit_notebook(r, nb, intensity=r.choice([1, 2, 3]))
        if canon_json(nb) != snap: problems.append((seed, 'mutation', ['edit_notebook mutated its input']))
        check(e, 'edit_notebook', seed, full=seed % 8 == 0)
        if seed % 4 == 0:
            for op in ALL_EDITS:
                e1 = edit_notebook(r, nb, 1, allow=(op,))
                check(e1, 'edit:' + op, seed, full=False)
                bump('edit-changes-notebook:%s:%s' % (op, _canon(e1) != _canon(nb)))
        l2, m2 = copy.deepcopy(nb), copy.deepcopy(nb)
        k = force_conflict(r, nb, l2, m2, used_ids(nb))
        bump('conflict:' + str(k))
        if canon_json(nb) != snap: problems.append((seed, 'mutation', ['force_conflict / edit_notebook mutated base']))
        if k is not None:
            check(l2, 'conflict.local:' + k, seed, full=False); check(m2, 'conflict.remote:' + k, seed, full=False)
            if _canon(l2) == _canon(m2): bump('conflict-sides-equal:' + k)
    nsmall = 0
    for nb in small_notebooks():
        nsmall += 1
        if nsmall % 7 == 0 or nsmall < 50:
            p = validate(nb)
            if p: problems.append((-1, 'small', p[:3]))
    # determinism across interpreter hash seeds
    h150 = hashlib.sha256()
    for seed in range(min(150, nseeds)): h150.update(canon_json(make(seed)).encode('utf-8'))
    digests = {h150.hexdigest()}
    for hs in ('1', '2'):
        env = dict(os.environ, PYTHONHASHSEED=hs)
        o = subprocess.run([sys.executable, os.path.abspath(__file__), '--digest', str(min(150, nseeds))], env=env, capture_output=True, text=True, timeout=120)
        digests.add(o.stdout.strip().splitlines()[-1] if o.stdout.strip() else 'ERR ' + o.stderr[-200:])
    if len(digests) != 1: problems.append((-1, 'determinism', ['output depends on PYTHONHASHSEED: %r' % sorted(digests)]))
    print('feature histogram over the %d notebooks of %d cases (kinds cycle notebook / pair / triple / disjoint triple):' % (nvalid[0] - nvalid[0] // 10 ** 9, nseeds))
    for k in sorted(hist): print('  %-48s %d' % (k, hist[k]))
    for k in sorted(kinds): print('  %-48s %d' % (k, kinds[k]))
    print('small_notebooks(): %d notebooks' % nsmall)
    print('digest %s  time %.1fs' % (hsh.hexdigest()[:16], time.time() - t0))
    if problems:
        print('PROBLEMS: %d' % len(problems))
        for p in problems[:25]: print('  ', p)
        return 1
    print('OK: %d notebooks valid under jsonschema (raw dict) + nbformat.validate + JSON round trip, %d more (single edit '
          'operations, forced conflicts) valid under nbformat.validate; deterministic; inputs not mutated' % tuple(nvalid))
    return 0

if __name__ == '__main__':
    import sys
    if len(sys.argv) > 2 and sys.argv[1] == '--digest': sys.exit(_selftest(int(sys.argv[2]), digest_only=True))
    sys.exit(_selftest(int(sys.argv[1]) if len(sys.argv) > 1 else 2000))
