"""Shared machinery of the C05 / C06 checks: implementation runner glue, the model-vs-implementation correspondence
(T1) for the merge core, judges that evaluate the merge laws on nbdime's own results with oracles sharing no code with
nbdime or with the Coq model, own walks over diffs, small-scope enumerations."""
import os, sys, json, copy, itertools
import core, wire, pyspec, genjson

SCRIPT = 'merge_implrun.py'
ERRMAP = {'NotImplementedError': 'RuntimeError'}
# strategies handled by the hooks of the strategy-layer model (not by Merge/MergeGeneric.v)
HOOK_STRATS = {'inline-source', 'inline-outputs', 'inline-cells', 'remove', 'clear-all', 'record-conflict', 'inline-attachments'}

ASSUME = [
    'heuristic predicates (compare_strings_approximate, difflib opcodes, notebook cell/output predicates) are oracles: '
    'recorded from the implementation run and replayed in the model, no hypothesis on them in any theorem',
    'str.splitlines(True) is modelled by Base/PyStr.v; dict iteration order is unobservable through canonical JSON',
    'r_is_int (\\d) is modelled for ASCII digits only',
    'the notebook-specific strategy family (inline-*, remove, clear-all, record-conflict, inline-attachments) enters the '
    'merge core through the hooks record; cases that reach a hook are outside T1 of this property and are counted',
]

def source_facts():
    """the three source facts, read from $NBDIME_REPO with the translator's own functions"""
    import importlib.util
    spec = importlib.util.spec_from_file_location('gen_mergefacts', os.path.join(core.VERIF, 'tools', 'gen', 'gen_mergefacts.py'))
    g = importlib.util.module_from_spec(spec)
    old = sys.path[:]
    sys.path.insert(0, os.path.join(core.VERIF, 'tools', 'gen'))
    try:
        spec.loader.exec_module(g)
        return [g.chunks_guard() == 'GuardAnyDiff', bool(g.entry_eq()), bool(g.conflict_assert())]
    finally:
        sys.path[:] = old

_ORIG_NBMODEL = wire.NBMODEL
_SNAP = []
def build_and_snapshot(chk):
    """core.build(), then a private copy of nbmodel (other checks sharing the tree may rebuild it for another
    NBDIME_REPO while this check runs); the copy must have been built with this tree's source facts."""
    import tempfile, shutil
    try:
        want = source_facts()
    except Exception:
        want = None                      # the translator fails closed: core.build reports it
    b = None; got = None
    for attempt in range(4):
        b = core.build()
        if not getattr(b, 'model_ok', False): return b
        d = tempfile.mkdtemp(prefix='nbv_model_')
        dst = os.path.join(d, 'nbmodel')
        try:
            shutil.copy2(_ORIG_NBMODEL, dst)
            wire.NBMODEL = dst
            got = wire.run_model([('merge_facts', [])])[0][0]
        except Exception:
            got = None
        if want is None or got == want:
            _SNAP.append(d)
            chk.notes.append('model snapshot built with source facts [guard_any_diff, entry_eq_strict, conflict_assert_strict] = %r' % (got,))
            return b
        wire.NBMODEL = _ORIG_NBMODEL
        shutil.rmtree(d, ignore_errors=True)
    chk.broken_obligation('model-facts', {'wanted': want, 'model_built_with': got})
    return b

def drop_snapshot():
    import shutil
    wire.NBMODEL = _ORIG_NBMODEL
    while _SNAP:
        shutil.rmtree(_SNAP.pop(), ignore_errors=True)

def run_impl(tasks, shards=14):
    return core.run_impl(tasks, shards=shards, script=SCRIPT)

def cli_strategies():
    r = run_impl([{'op': 'cli_strategies'}])[0]
    if not isinstance(r, dict) or 'merge' not in r:
        raise RuntimeError('cannot read CLI strategy lists: %r' % (r,))
    return r

# ------------------------------------------------------------------ T1: model = implementation
def strategies_of(task, res):
    return task.get('strategies') or res.get('strategies') or {'table': {}, 'transients': []}

def t1(chk, tasks, results, build, limit=None, report=3):
    """Run the extracted model on every implementation result (decisions from nbdime's own diffs and recorded
    oracles; merged document from nbdime's own decisions) and compare exactly.  Returns counters."""
    st = {'validated': 0, 'mismatches': 0, 'outside_model': 0, 'oracle_misses': 0, 'lines': 0}
    if not getattr(build, 'model_ok', False):
        chk.broken_obligation('model-build', build.log[-800:]); return st
    lines, idx = [], []
    for i, (t, x) in enumerate(zip(tasks, results)):
        if limit is not None and len(lines) >= limit: break
        if not isinstance(x, dict) or 'ld' not in x or 'decisions' not in x: continue
        lines.append(('merge_decide', [strategies_of(t, x), t['base'], x['ld'], x['rd'], x.get('oracles', {})])); idx.append((i, 'decide'))
        if 'ok' in x['decisions'] and 'merged' in x and '"parent_deleted"' not in json.dumps(x['decisions']['ok']):
            lines.append(('merge_apply', [t['base'], x['decisions']['ok']])); idx.append((i, 'apply'))
    st['lines'] = len(lines)
    if not lines: return st
    try:
        outs = []
        for k in range(0, len(lines), 4000):
            outs += wire.run_model(lines[k:k + 4000], timeout=1200)
    except Exception as e:
        chk.broken_obligation('model-run', repr(e)[:600]); return st
    outside = set()
    for (i, kind), (val, misses) in zip(idx, outs):
        t, x = tasks[i], results[i]
        impl = x['decisions'] if kind == 'decide' else x['merged']
        if isinstance(val, dict) and val.get('err') == 'NBDiffFormatError':
            st['outside_model'] += 1; outside.add(i); continue        # a hook of the strategy layer was reached
        if kind == 'apply' and i in outside: continue
        if misses: st['oracle_misses'] += 1
        if 'ok' in impl:
            same = isinstance(val, dict) and 'ok' in val and pyspec.strict_eq(val['ok'], impl['ok'])
        else:
            same = isinstance(val, dict) and val.get('err') == ERRMAP.get(impl['err'], impl['err'])
        st['validated'] += 1
        if not same:
            st['mismatches'] += 1
            if st['mismatches'] <= report:
                chk.broken_obligation('correspondence:merge_' + kind, {
                    'case': {k: t[k] for k in t if k != 'op'}, 'op': t['op'], 'strategies': strategies_of(t, x),
                    'ld': x.get('ld'), 'rd': x.get('rd'),
                    'impl': impl.get('ok', impl.get('err')), 'impl_msg': impl.get('msg'), 'model': val, 'oracle_misses': misses})
    return st

# ------------------------------------------------------------------ own walks over diffs / decisions
def conflicted(decisions):
    return any(bool(d.get('conflict')) for d in decisions)

def same_position_inserts(ld, rd):
    """both sides insert new items at the same position of the same sequence (own walk, no nbdime code)"""
    la = {e['key'] for e in ld if e.get('op') == 'addrange'}
    ra = {e['key'] for e in rd if e.get('op') == 'addrange'}
    if la & ra: return True
    rp = {}
    for f in rd:
        if f.get('op') == 'patch': rp.setdefault(json.dumps(f['key']), f)
    for e in ld:
        if e.get('op') == 'patch':
            f = rp.get(json.dumps(e['key']))
            if f is not None and same_position_inserts(e.get('diff') or [], f.get('diff') or []): return True
    return False

def walk_separated(ld, rd):
    """Own walk over two diffs of the same container: do the two sides, AS THE DIFFER ALIGNED THEM, change different
    items?  Sequences: no item removed/patched by both, no gap used by both, no insertion gap of one side adjacent to an
    item the other side removed/patched.  Mappings: a key named by both sides must be patched by both, recursively."""
    if not ld or not rd: return True
    if all(isinstance(e.get('key'), int) and not isinstance(e.get('key'), bool) for e in ld + rd):
        def info(d):
            cells, gaps = set(), set()
            for e in d:
                if e['op'] == 'addrange': gaps.add(e['key'])
                elif e['op'] == 'removerange': cells.update(range(e['key'], e['key'] + e['length']))
                elif e['op'] == 'patch': cells.add(e['key'])
            return cells, gaps
        lc, lg = info(ld); rc, rg = info(rd)
        if lc & rc or lg & rg: return False
        if any(g in rc or (g - 1) in rc for g in lg): return False
        if any(g in lc or (g - 1) in lc for g in rg): return False
        return True
    lk = {e['key']: e for e in ld}; rk = {e['key']: e for e in rd}
    for k in set(lk) & set(rk):
        a, b = lk[k], rk[k]
        if a['op'] == 'patch' and b['op'] == 'patch':
            if not walk_separated(a['diff'], b['diff']): return False
        else:
            return False
    return True

def touches_both(ld, rd):
    return bool(ld) and bool(rd)

def is_empty_seq(v):
    return (isinstance(v, list) and len(v) == 0) or (isinstance(v, str) and v == '')

def diff_failed(res):
    return isinstance(res, dict) and 'diff' in res and 'err' in res['diff']

# ------------------------------------------------------------------ judges (the property itself, on the implementation's results)
def judge_law(kind, base, expected, res):
    """kind in id/left/right/agree: merged must strictly equal `expected`, no decision may be conflicted.
    Returns (signature, detail) or (None, None)."""
    if not isinstance(res, dict) or 'crash' in (res or {}):
        return 'law-%s-harness-crash' % kind, {'res': res}
    if diff_failed(res):
        return None, None                     # the differ failed before the merge started: not a C05 matter (counted)
    dec = res.get('decisions', {})
    if 'err' in dec:
        if dec['err'] == 'AssertionError' and 'no merge chunks' in (dec.get('msg') or '') and is_empty_seq(base) \
                and res.get('ld') == [] and res.get('rd') == []:
            return 'empty-sequence-root-unchanged-asserts-no-merge-chunks', {'error': dec['err'], 'msg': dec.get('msg')}
        return 'law-%s-decide-raises:%s' % (kind, dec['err']), {'msg': dec.get('msg'), 'tb': dec.get('tb')}
    if conflicted(dec['ok']):
        return 'law-%s-reports-conflict' % kind, {'decisions': [d for d in dec['ok'] if d.get('conflict')][:3]}
    m = res.get('merged', {})
    if 'err' in m:
        return 'law-%s-apply-raises:%s' % (kind, m['err']), {'msg': m.get('msg'), 'decisions': dec['ok'][:6]}
    if not pyspec.strict_eq(m['ok'], expected):
        return 'law-%s-wrong-result' % kind, {'merged': m['ok'], 'expected': expected, 'decisions': dec['ok'][:6]}
    return None, None

def judge_symmetry(res1, res2):
    """res1 = merge(b, l, r), res2 = merge(b, r, l).  Returns (signature, detail, excluded?)."""
    if diff_failed(res1) or diff_failed(res2):
        return None, None, 'diff-failed'
    if 'ld' not in res1 or 'ld' not in res2:
        return 'symmetry-harness-crash', {'res1': res1, 'res2': res2}, None
    if same_position_inserts(res1['ld'], res1['rd']):
        return None, None, 'same-position-inserts'
    d1, d2 = res1['decisions'], res2['decisions']
    if 'err' in d1 or 'err' in d2:
        if d1.get('err') == d2.get('err'): return None, None, 'both-raise'
        return 'symmetry-one-order-raises', {'lr': d1.get('err'), 'rl': d2.get('err'), 'msg': d1.get('msg') or d2.get('msg')}, None
    c1, c2 = conflicted(d1['ok']), conflicted(d2['ok'])
    if c1 != c2:
        return 'symmetry-conflict-verdict-differs', {'lr_conflict': c1, 'rl_conflict': c2,
                                                       'lr': d1['ok'][:5], 'rl': d2['ok'][:5]}, None
    if not c1:
        m1, m2 = res1['merged'], res2['merged']
        if 'err' in m1 or 'err' in m2:
            if m1.get('err') == m2.get('err'): return None, None, 'both-raise'
            return 'symmetry-one-order-raises-in-apply', {'lr': m1.get('err'), 'rl': m2.get('err')}, None
        if not pyspec.strict_eq(m1['ok'], m2['ok']):
            if m1['ok'] == m2['ok']:
                return 'symmetry-merged-differs-by-json-type-only', {'lr': m1['ok'], 'rl': m2['ok'], 'lr_decisions': d1['ok'][:5]}, None
            return 'symmetry-merged-differs', {'lr': m1['ok'], 'rl': m2['ok'], 'lr_decisions': d1['ok'][:5], 'rl_decisions': d2['ok'][:5]}, None
    return None, None, None

def judge_disjoint(res, expected, respect_alignment=False):
    """C06: no decision conflicted and merged strictly equal to the by-construction expectation.
    respect_alignment (notebook families): a triple whose diffs, as nbdime aligned them, do NOT change different
    cells (possible when base holds near-identical cells, so that the construction's alignment is not the only one)
    is outside the property's hypothesis; it is reported as ('excluded', ...) and counted."""
    if not isinstance(res, dict) or 'crash' in (res or {}):
        return 'disjoint-harness-crash', {'res': res}
    if diff_failed(res): return None, None
    if respect_alignment and 'ld' in res and not walk_separated(res['ld'], res['rd']):
        return 'excluded', 'alignment-not-separated'
    dec = res.get('decisions', {})
    if 'err' in dec:
        return 'disjoint-decide-raises:%s' % dec['err'], {'msg': dec.get('msg'), 'tb': dec.get('tb')}
    if conflicted(dec['ok']):
        return 'disjoint-reports-conflict', {'decisions': [d for d in dec['ok'] if d.get('conflict')][:3], 'ld': res.get('ld'), 'rd': res.get('rd')}
    m = res.get('merged', {})
    if 'err' in m:
        return 'disjoint-apply-raises:%s' % m['err'], {'msg': m.get('msg'), 'decisions': dec['ok'][:6]}
    if not pyspec.strict_eq(m['ok'], expected):
        return 'disjoint-wrong-result', {'merged': m['ok'], 'expected': expected, 'decisions': dec['ok'][:8], 'ld': res.get('ld'), 'rd': res.get('rd')}
    return None, None

# ------------------------------------------------------------------ small scope
ALPHA = [1, 2, 3]
LINES = ['a\n', 'b\n', 'c']          # the third symbol has no terminator: exercises the unterminated last line

def small_lists(maxlen):
    return [list(c) for n in range(maxlen + 1) for c in itertools.product(ALPHA, repeat=n)]

def small_strings(maxlen):
    return sorted(set(''.join(c) for n in range(maxlen + 1) for c in itertools.product(LINES, repeat=n)))

def small_objects():
    out = []
    for combo in itertools.product([None, 1, 2, 3], repeat=3):
        out.append({k: v for k, v in zip('xyz', combo) if v is not None})
    return out

def nested_small():
    """a few two-level documents over the same alphabet: lists of lists / objects of lists / lists of strings"""
    inner = [[], [1], [1, 2], [2, 1], [3]]
    out = []
    for a in inner:
        for b in inner[:4]:
            out.append([a, b]); out.append({'x': a, 'y': b})
    for s in ['a\nb\n', 'a\n', 'b\nc', 'a\nb\nc']:
        out.append([s, 'a\n']); out.append({'x': s})
    return out

def shrink_json_pair(base, x, still_fails, budget=40):
    """greedy: drop list items / dict keys / string lines from both documents together"""
    def cands(c):
        b, y = c
        if isinstance(b, list):
            for i in range(len(b)): yield (b[:i] + b[i + 1:], [v for v in y if not pyspec.strict_eq(v, b[i])] if b[i] in y else y)
            for i in range(len(y)): yield (b, y[:i] + y[i + 1:])
        elif isinstance(b, dict):
            for k in sorted(b): yield ({a: v for a, v in b.items() if a != k}, {a: v for a, v in y.items() if a != k})
            for k in sorted(y):
                if k not in b: yield (b, {a: v for a, v in y.items() if a != k})
        elif isinstance(b, str):
            bl, yl = b.splitlines(True), y.splitlines(True)
            for i in range(len(bl)): yield (''.join(bl[:i] + bl[i + 1:]), y)
            for i in range(len(yl)): yield (b, ''.join(yl[:i] + yl[i + 1:]))
    return core.shrink((base, x), still_fails, cands, budget=budget)


def judge_reapply(res):
    """the decisions nbdime returned, applied a second time to a fresh copy of base, must give the merged document again, and the
    decision list must be unchanged by having been applied (merge_notebooks and nbmerge --decisions hand them out AFTER applying them)"""
    if not isinstance(res, dict) or 'merged_again' not in res: return None, None
    m, m2 = res.get('merged'), res.get('merged_again')
    if not (isinstance(m, dict) and 'ok' in m): return None, None
    if 'ok' not in m2:
        return 'decisions-not-reusable:second-application-raises:' + str(m2.get('err')), {'msg': m2.get('msg')}
    if not pyspec.strict_eq(m2['ok'], m['ok']):
        return 'decisions-not-reusable:second-application-differs', {'first': m['ok'], 'second': m2['ok']}
    d0 = res.get('decisions', {}).get('ok'); d1 = res.get('decisions_after')
    if d0 is not None and d1 is not None and pyspec.canon(d0) != pyspec.canon(d1):
        return 'apply-modifies-the-decisions', {'before': d0, 'after': d1}
    return None, None
