"""Shared helpers of the C03 / C10 checks: sandboxed environments (three tool availabilities), configuration space from
the real parser, merge task running, corpus / fixture triples, shrinking, failure signatures, and the executed
correspondence between the generated dispatch chains (Coq, Gen/Strategies.v) and the real dispatchers."""
import os, sys, json, copy, tempfile, shutil, subprocess, re, itertools
import core, pyspec

RUNNER = 'c03_runner.py'
EXPECT_TOOLS = {'git': {'git': True, 'diff3': True}, 'diff3': {'git': False, 'diff3': True}, 'diff': {'git': False, 'diff3': False}, 'none': {'git': False, 'diff3': False}}
MODES = ('git', 'diff3', 'diff', 'none')   # 'diff': a machine with plain diff(1) only (no git, no diff3); 'none': not even that
_MS = ['inline', 'use-base', 'use-local', 'use-remote']
# process-locale variants (appended to a tool mode as 'git@C'): the encoding the interpreter uses for files opened without an
# explicit encoding, for its standard streams and for file names.  'C' / 'POSIX': no UTF-8 anywhere (coercion and UTF-8 mode
# off, as on a minimal container / cron / ssh session with LANG unset under an older or explicitly configured Python);
# 'C-ioutf8': the same with only the standard streams forced to UTF-8; '*-tmpdir': the temp directory has a non-ASCII name.
_NO_UTF8 = {'PYTHONUTF8': '0', 'PYTHONCOERCECLOCALE': '0', 'PYTHONIOENCODING': ''}
LOCALES = {
    'C': {'env': dict(_NO_UTF8, LC_ALL='C', LANG='C')},
    'POSIX': {'env': dict(_NO_UTF8, LC_ALL='POSIX', LANG='POSIX', LC_CTYPE='POSIX')},
    'C-ioutf8': {'env': dict(_NO_UTF8, LC_ALL='C', LANG='C', PYTHONIOENCODING='utf-8')},
    'C-tmpdir': {'env': dict(_NO_UTF8, LC_ALL='C', LANG='C'), 'tmpdir': 'tmp-\u00fc\u2013\u65e5'},
    'utf8-tmpdir': {'env': {}, 'tmpdir': 'tmp-\u00fc\u2013\u65e5'},
}
NON_UTF8_LOCALES = ('C', 'POSIX', 'C-ioutf8', 'C-tmpdir')
FALLBACK_CONFIGS = [[m, i, o, t, 'cli'] for m in _MS for i in [None] + _MS for o in [None] + _MS + ['remove', 'clear-all'] for t in [True, False]] \
    + [['mergetool', None, None, True, 'web']]


class Sandbox:
    """temp HOME / jupyter / git configuration and three PATH directories; removed by close()"""
    def __init__(self):
        self.dir = tempfile.mkdtemp(prefix='nbv_c03_')
        for d in ('home', 'jc', 'jp', 'jd', 'xdg', 'p_git', 'p_diff3', 'p_diff', 'p_none', 'tmp'):
            os.makedirs(os.path.join(self.dir, d))
        self.real = {t: shutil.which(t) for t in ('git', 'diff3')}
        if self.real['git']: os.symlink(self.real['git'], os.path.join(self.dir, 'p_git', 'git'))
        if self.real['diff3']:
            os.symlink(self.real['diff3'], os.path.join(self.dir, 'p_git', 'diff3'))
            os.symlink(self.real['diff3'], os.path.join(self.dir, 'p_diff3', 'diff3'))
        self.real['diff'] = shutil.which('diff')
        if self.real['diff']:      # plain diff is on every machine that has git or diff3; and on some that have neither
            for m in ('p_git', 'p_diff3', 'p_diff'):
                os.symlink(self.real['diff'], os.path.join(self.dir, m, 'diff'))

    def env(self, mode='git'):
        """mode: a tool availability of MODES, optionally followed by '@' and a process-locale variant of LOCALES
        ('git@C', 'diff3@C-tmpdir', ...); without '@' the environment is the UTF-8 one it always was"""
        mode, _, loc = mode.partition('@')
        env = self._env(mode)
        if loc:
            var = LOCALES[loc]
            env.update(var['env'])
            if var.get('tmpdir'):       # a temp directory whose NAME is not ASCII (external helpers run with cwd = a directory below it)
                td = os.path.join(self.dir, var['tmpdir'])
                os.makedirs(td, exist_ok=True)
                env['TMPDIR'] = td
        return env

    def _env(self, mode):
        d = self.dir
        return {'HOME': os.path.join(d, 'home'), 'JUPYTER_CONFIG_DIR': os.path.join(d, 'jc'), 'JUPYTER_CONFIG_PATH': os.path.join(d, 'jp'),
                'JUPYTER_DATA_DIR': os.path.join(d, 'jd'), 'JUPYTER_PATH': os.path.join(d, 'jd'), 'XDG_CONFIG_HOME': os.path.join(d, 'xdg'),
                'GIT_CONFIG_GLOBAL': os.path.join(d, 'home', '.gitconfig'), 'GIT_CONFIG_NOSYSTEM': '1', 'TMPDIR': os.path.join(d, 'tmp'),
                'PATH': os.path.join(d, 'p_' + mode), 'LC_ALL': 'C.UTF-8', 'LANG': 'C.UTF-8'}

    def close(self):
        shutil.rmtree(self.dir, ignore_errors=True)


def run(sb, tasks, mode='git', shards=14):
    return core.run_impl(tasks, shards=shards, script=RUNNER, env_extra=sb.env(mode))


def all_configs(sb):
    """[[merge, input, output, ignore_transients, how], ...]: the full command-line product + the web tool"""
    res = run(sb, [{'op': 'choices'}])[0]
    if 'ok' not in res: return None, res
    c = res['ok']
    try:
        ms = c['merge_strategy']['choices']; ins = c['input_strategy']['choices']; outs = c['output_strategy']['choices']
        if c['input_strategy']['default'] is not None or c['output_strategy']['default'] is not None or c['ignore_transients']['default'] is not True:
            return None, {'unexpected-defaults': c}
    except Exception as e:
        return None, {'choices-shape': repr(e), 'got': c}
    cfgs = [[m, i, o, t, 'cli'] for m in ms for i in [None] + ins for o in [None] + outs for t in [True, False]]
    cfgs.append(['mergetool', None, None, True, 'web'])
    return cfgs, None


def check_tools(sb):
    out = {}
    for mode in MODES:
        r = run(sb, [{'op': 'tools'}], mode)[0]
        out[mode] = r.get('ok', r)
    return out


def check_locales(sb):
    """what a process of each locale variant really uses: {variant: {'preferred': ..., 'fs': ..., 'stdout': ..., 'utf8_mode': ..., 'tmp_ascii': ...}}"""
    import codecs
    out = {}
    for loc in LOCALES:
        r = run(sb, [{'op': 'locale'}], 'git@' + loc)[0]
        out[loc] = r.get('ok', r)
    return out


def locale_exercised(loc, seen):
    """the variant gives the kind of process it stands for (a non-UTF-8 default file encoding / a non-ASCII temp directory)"""
    import codecs
    if not isinstance(seen, dict) or 'preferred' not in seen: return False
    try: utf8 = codecs.lookup(seen['preferred']).name == 'utf-8'
    except LookupError: utf8 = False
    if loc in NON_UTF8_LOCALES and (utf8 or seen.get('utf8_mode')): return False
    if LOCALES[loc].get('tmpdir') and seen.get('tmp_ascii'): return False
    return True


def pick_few(cfgs, r):
    """a few configurations for the many-triples leg: the defaults, each use-side, the web tool, and mixed ones"""
    want = [['inline', None, None, True], ['inline', None, None, False], ['use-base', None, None, True], ['use-local', None, None, True],
            ['use-remote', None, None, False], ['inline', 'use-local', 'use-remote', True], ['use-local', 'inline', 'inline', True],
            ['inline', None, 'clear-all', True], ['inline', None, 'remove', True], ['use-remote', 'inline', 'clear-all', False],
            ['use-base', 'use-local', 'remove', True], ['mergetool', None, None, True]]
    out = [c for c in cfgs if c[:4] in want]
    rest = [c for c in cfgs if c not in out]
    r.shuffle(rest)
    return out + rest[:6]


# ------------------------------------------------------------------ triples
def _md_nb(att, minor=2):
    c = {'cell_type': 'markdown', 'metadata': {}, 'source': '![x](attachment:test.png)'}
    if att is not None: c['attachments'] = att
    return {'nbformat': 4, 'nbformat_minor': minor, 'metadata': {}, 'cells': [c]}


def _code_nb(outs, source='x = 1\n', minor=2):
    return {'nbformat': 4, 'nbformat_minor': minor, 'metadata': {},
            'cells': [{'cell_type': 'code', 'execution_count': None, 'metadata': {}, 'source': source, 'outputs': outs}]}


def _with_id(nb):
    for i, c in enumerate(nb['cells']): c['id'] = 'cell-%d' % i
    return nb


def _stream(t):
    return {'output_type': 'stream', 'name': 'stdout', 'text': t}


def _disp(a):
    return {'output_type': 'display_data', 'data': {'text/plain': 'x'}, 'metadata': {'a': a}}


def corpus_triples():
    """minimised failures found earlier (run first) + files under corpus/C03"""
    out = [
        {'b': _md_nb({}), 'l': _md_nb({'test.png': {'image/png': 'AAAA'}}), 'r': _md_nb({'test.png': {'image/png': 'BBBB'}}), 'src': 'corpus:attachment-add-add'},
        {'b': _md_nb({'test.png': {'image/png': 'CCCC'}}), 'l': _md_nb({'test.png': {'image/png': 'AAAA'}}), 'r': _md_nb({'test.png': {'image/png': 'BBBB'}}), 'src': 'corpus:attachment-change-change'},
        {'b': _md_nb({'test.png': {'image/svg+xml': '<svg>\n<circle r="2"/>\n</svg>'}}), 'l': _md_nb({'test.png': {'image/svg+xml': '<svg>\n<circle r="3"/>\n</svg>'}}),
         'r': _md_nb({'test.png': {'image/svg+xml': '<svg>\n<circle r="4"/>\n</svg>'}}), 'src': 'corpus:attachment-text-change-change'},
        {'b': _code_nb([_disp(1)]), 'l': _code_nb([_disp(2), {'output_type': 'stream', 'name': 'stdout', 'text': 'hi\n'}]), 'r': _code_nb([_disp(3)]), 'src': 'corpus:output-metadata+append'},
        {'b': _code_nb([_stream('a\n')]), 'l': _code_nb([_stream('a\n'), _stream('local\n')]),
         'r': _code_nb([_stream('a\n'), {'output_type': 'display_data', 'data': {'text/plain': 'R'}, 'metadata': {}}]), 'src': 'corpus:outputs-both-append'},
        {'b': _code_nb([], 'a\nb\nc\n'), 'l': _code_nb([], 'b\nc\n'), 'r': _code_nb([], 'a\nb\n'), 'src': 'corpus:source-both-delete'},
        {'b': _code_nb([], 'a\n'), 'l': _code_nb([], ''), 'r': _code_nb([], 'a\nb\n'), 'src': 'corpus:source-empty-vs-append'},
        {'b': _with_id(_code_nb([], 'a\nb\n', 5)), 'l': _with_id(_code_nb([], '', 5)), 'r': _with_id(_code_nb([], 'a\nb\nc\n', 5)), 'src': 'corpus:source-emptied-vs-edit-same-id'},
        {'b': _with_id(_code_nb([], 'a\nb\n', 5)), 'l': _with_id(_code_nb([], 'a\nX\n', 5)), 'r': _with_id(_code_nb([], '', 5)), 'src': 'corpus:source-edit-vs-emptied-same-id'},
    ]
    cdir = os.path.join(core.VERIF, 'corpus', 'C03')
    if os.path.isdir(cdir):
        for f in sorted(os.listdir(cdir)):
            c = json.load(open(os.path.join(cdir, f)))
            out.append({'b': c['base'], 'l': c['local'], 'r': c['remote'], 'src': 'corpus:' + f})
    return out


def fixture_triples():
    """triples from the repository's own test notebooks: files sharing a prefix before '--' (and the bare prefix file)"""
    d = os.path.join(core.REPO, 'nbdime', 'tests', 'files')
    if not os.path.isdir(d): return []
    groups = {}
    for f in sorted(os.listdir(d)):
        if not f.endswith('.ipynb'): continue
        try:
            nb = json.load(open(os.path.join(d, f), encoding='utf8'))
        except Exception:
            continue
        if nb.get('nbformat') != 4 or not isinstance(nb.get('cells'), list): continue
        for c in nb['cells']:      # in-memory form: multi-line strings joined
            if isinstance(c.get('source'), list): c['source'] = ''.join(c['source'])
            for o in c.get('outputs', []):
                if isinstance(o.get('text'), list): o['text'] = ''.join(o['text'])
                for k, v in list(o.get('data', {}).items()):
                    if isinstance(v, list) and all(isinstance(x, str) for x in v) and not k.endswith('json'): o['data'][k] = ''.join(v)
            for a in (c.get('attachments') or {}).values():
                for k, v in list(a.items()):
                    if isinstance(v, list): a[k] = ''.join(v)
        groups.setdefault(f[:-6].split('--')[0], []).append((f, nb))
    out = []
    for g, lst in sorted(groups.items()):
        if len(lst) < 3: continue
        base = [x for x in lst if '--' not in x[0] or x[0].endswith('--base.ipynb') or x[0].endswith('--1.ipynb')]
        b = base[0] if base else lst[0]
        others = [x for x in lst if x is not b]
        for x, y in itertools.permutations(others, 2):
            out.append({'b': b[1], 'l': x[1], 'r': y[1], 'src': 'fixture:%s|%s|%s' % (b[0], x[0], y[0])})
    return out


def has_text_conflict(t):
    """both sides changed the source of some cell position differently (exercises the text merge helpers)"""
    bc, lc, rc = t['b']['cells'], t['l']['cells'], t['r']['cells']
    for i in range(min(len(bc), len(lc), len(rc))):
        if lc[i].get('source') != bc[i].get('source') and rc[i].get('source') != bc[i].get('source') and lc[i].get('source') != rc[i].get('source'):
            return True
    return len(lc) != len(bc) and len(rc) != len(bc)


# ------------------------------------------------------------------ running merges
def run_merge_tasks(sb, tasks, op='merge_all'):
    """tasks: [(triple, cfg list, mode)] -> results in order"""
    out = [None] * len(tasks)
    def group(mode, shards=14):
        idx = [i for i, t in enumerate(tasks) if t[2] == mode]
        if not idx: return
        res = run(sb, [{'op': op, 'b': tasks[i][0]['b'], 'l': tasks[i][0]['l'], 'r': tasks[i][0]['r'], 'cfgs': tasks[i][1]} for i in idx], mode, shards=shards)
        for i, r in zip(idx, res): out[i] = r
    for mode in MODES: group(mode)
    # tool mode x process-locale variant ('git@C', ...): small groups, several at a time
    extra = sorted(set(t[2] for t in tasks) - set(MODES))
    if extra:
        from concurrent.futures import ThreadPoolExecutor
        with ThreadPoolExecutor(max_workers=4) as ex:
            list(ex.map(lambda m: group(m, 4), extra))
    return out


def error_signature(res):
    return 'merge-raises:%s@%s' % (res.get('err'), res.get('frame'))


def _attachment_names(nb):
    return [set((c.get('attachments') or {}).keys()) for c in nb['cells']]


def refine_signature(sig, t, detail):
    """Name the known root causes by a predicate over the (minimised) failing case; anything else keeps the generic
    exception@frame signature and is therefore reported as a new violation."""
    msg = (detail or {}).get('msg') or ''
    if sig == 'merge-raises:KeyError@nbdime/merging/strategies.py:resolve_strategy_inline_attachments':
        m = re.match(r"^'(.*)'$", msg)
        key = m.group(1) if m else None
        names_b = set().union(*_attachment_names(t['b'])) if t['b']['cells'] else set()
        names_l = set().union(*_attachment_names(t['l'])) if t['l']['cells'] else set()
        names_r = set().union(*_attachment_names(t['r'])) if t['r']['cells'] else set()
        if key is not None and key in names_l and key in names_r and any(
                key in (cl.get('attachments') or {}) and key in (cr.get('attachments') or {}) and key not in (cb.get('attachments') or {})
                and (cl.get('attachments') or {})[key] != (cr.get('attachments') or {})[key]
                for cb, cl, cr in zip(t['b']['cells'], t['l']['cells'], t['r']['cells'])):
            return 'inline-attachments-add-add-missing-base-key'
        # the key comes from a level below the attachments dict (mime type, or a line number of a text attachment): both sides
        # changed the same existing attachment differently and the collected diffs were not wrapped up to the attachments level
        if key is None: key = msg
        def changed_both(cb, cl, cr):
            ab, al, ar = (cb.get('attachments') or {}), (cl.get('attachments') or {}), (cr.get('attachments') or {})
            return any(n in al and n in ar and al[n] != ab[n] and ar[n] != ab[n] and al[n] != ar[n] for n in ab)
        if key not in (names_b | names_l | names_r) and any(changed_both(cb, cl, cr) for cb in t['b']['cells'] for cl in t['l']['cells'] for cr in t['r']['cells']):
            return 'collected-diffs-not-wrapped-to-level:inline-attachments'
    outs_clear_all = False
    cfg = t.get('cfg')
    if sig == 'merge-raises:TypeError@nbdime/merging/strategies.py:combine_patches' and "'<' not supported between instances of" in msg \
            and ("'int' and 'str'" in msg or "'str' and 'int'" in msg):
        return 'collected-diffs-not-wrapped-to-level:clear-all'
    if sig == 'merge-raises:TypeError@nbdime/merging/strategies.py:collect_diffs' and msg == "'NoneType' object is not iterable":
        return 'clear-all-collects-none-diff'
    if sig == 'merge-raises:IndexError@nbdime/merging/strategies.py:resolve_strategy_inline_outputs' and msg == 'list index out of range' \
            and _both_append_outputs(t):
        return 'inline-outputs-insert-at-end-index-error'
    if sig == 'merge-raises:ValueError@nbdime/merging/strategies.py:resolve_strategy_inline_recurse':
        m = re.match(r"^Conflict on unrecognized key: '(.*)'$", msg)
        if m and m.group(1) == 'attachments' and _both_insert_cells_with_attachments(t):
            return 'inline-cells-similar-insert-unrecognized-key:attachments'
    if sig == 'merge-raises:AssertionError@nbdime/merging/strategies.py:resolve_strategy_inline_recurse' and msg == '' and _delete_vs_multi_field_edit(t):
        return 'parent-deletion-counter-diff-has-empty-patches'
    if sig == 'merge-raises:RuntimeError@nbdime/diffing/generic.py:diff' and msg.startswith('Can currently only diff list, dict, or str objects') \
            and _has_noncontainer_split_json_mime(t):
        return 'diff-raises-on-non-container-json-mime-value'
    return sig


def _cells(nb): return nb.get('cells', [])


def _both_insert_cells_with_attachments(t):
    """both sides hold a markdown/raw cell that is not a base cell, and the attachments of two such cells differ"""
    base = [json.dumps(c, sort_keys=True) for c in _cells(t['b'])]
    def new(nb):
        return [c for c in _cells(nb) if c.get('cell_type') in ('markdown', 'raw') and json.dumps(c, sort_keys=True) not in base]
    return any((cl.get('attachments') or cr.get('attachments')) and cl.get('attachments') != cr.get('attachments')
               for cl in new(t['l']) for cr in new(t['r']))


def _both_append_outputs(t):
    """some base code cell whose outputs are a proper prefix-length shorter than those of a cell on both sides"""
    for cb in _cells(t['b']):
        if cb.get('cell_type') != 'code': continue
        n = len(cb.get('outputs', []))
        if any(c.get('cell_type') == 'code' and len(c.get('outputs', [])) > n for c in _cells(t['l'])) and \
           any(c.get('cell_type') == 'code' and len(c.get('outputs', [])) > n for c in _cells(t['r'])):
            return True
    return False



def minor_upgrade_triples():
    """one side re-saved with nbformat 4.5 (cells get ids) while the other stays pre-4.5; both insert a similar cell at
    the same place (and the mirrored / downgraded variants)"""
    def cell(src, cid=None, kind='code'):
        c = {'cell_type': kind, 'metadata': {}, 'source': src}
        if kind == 'code': c.update({'execution_count': None, 'outputs': []})
        if cid: c['id'] = cid
        return c
    def nb(cells, minor): return {'cells': cells, 'metadata': {}, 'nbformat': 4, 'nbformat_minor': minor}
    out = []
    f1 = "def f(x):\n    y = x + 1\n    return y\n"; f2 = "def f(x):\n    y = x + 2\n    return y\n"
    for kind in ('code', 'markdown'):
        base4 = nb([cell('a = 1', kind=kind)], 4)
        old = nb([cell('a = 1', kind=kind), cell(f1, kind=kind)], 4)
        new = nb([cell('a = 1', 'c0', kind=kind), cell(f2, 'n1', kind=kind)], 5)
        out.append({'b': base4, 'l': old, 'r': new, 'src': 'crafted:minor_upgrade'})
        out.append({'b': base4, 'l': new, 'r': old, 'src': 'crafted:minor_upgrade'})
        base5 = nb([cell('a = 1', 'c0', kind=kind)], 5)
        out.append({'b': base5, 'l': old, 'r': new, 'src': 'crafted:minor_downgrade'})
        out.append({'b': base5, 'l': new, 'r': old, 'src': 'crafted:minor_downgrade'})
    return out

def concurrent_output_insert_triples():
    """both sides insert outputs at the same position of one cell: a similar-but-different pair, and one side has
    further outputs before / after it (one-sided decisions next to a similar-insert decision on the same list)"""
    def st(t): return {'output_type': 'stream', 'name': 'stdout', 'text': t}
    def nb(outs, minor=5):
        c = {'cell_type': 'code', 'execution_count': 1, 'metadata': {}, 'outputs': outs, 'source': 'x'}
        if minor >= 5: c['id'] = 'a1'
        return {'cells': [c], 'metadata': {}, 'nbformat': 4, 'nbformat_minor': minor}
    sim_l = 'hello\nworld\nfoo\nbar\n'; sim_r = 'hello\nworld\nfoo\nbaz\n'
    out = []
    for minor in (4, 5):
        for base_outs in ([st('base\n')], []):
            for extra_before, extra_after in ((0, 1), (1, 0), (1, 1), (0, 2)):
                xs = [st('zzz\nyyy\n'), st('111\n222\n333\n')]
                more = [st('before %d\nunrelated\n' % i) for i in range(extra_before)] + [st(sim_r)] + xs[:extra_after]
                b = nb(list(base_outs), minor); l = nb([st(sim_l)] + list(base_outs), minor); r = nb(more + list(base_outs), minor)
                out.append({'b': b, 'l': l, 'r': r, 'src': 'crafted:concurrent_output_insert'})
                out.append({'b': b, 'l': r, 'r': l, 'src': 'crafted:concurrent_output_insert'})
    return out

def record_touched_triples():
    """re-merges around an nbdime-conflicts record left by an earlier conflicted merge: base with / without a record,
    each side keeps, removes, edits or adds one (notebook and cell metadata), and a NEW metadata conflict arises"""
    import itertools
    rec = {'local_diff': [], 'remote_diff': []}
    rec2 = {'local_diff': [{'op': 'add', 'key': 'z', 'value': 1}], 'remote_diff': []}
    out = []
    for base_has, lop, rop, level in itertools.product([True, False], ['keep', 'remove', 'edit', 'add'], ['keep', 'remove', 'edit', 'add'], ['nb', 'cell']):
        base = {'cells': [{'cell_type': 'code', 'execution_count': None, 'metadata': {}, 'outputs': [], 'source': 'x = 1'}],
                'metadata': {}, 'nbformat': 4, 'nbformat_minor': 4}
        md = (lambda nb: nb['metadata']) if level == 'nb' else (lambda nb: nb['cells'][0]['metadata'])
        if base_has: md(base)['nbdime-conflicts'] = copy.deepcopy(rec)
        md(base)['k'] = 'base'
        l = copy.deepcopy(base); r = copy.deepcopy(base); ok = True
        for side, op in ((l, lop), (r, rop)):
            m = md(side)
            if op == 'remove':
                if 'nbdime-conflicts' in m: del m['nbdime-conflicts']
                else: ok = False
            elif op == 'edit':
                if 'nbdime-conflicts' in m: m['nbdime-conflicts'] = copy.deepcopy(rec2)
                else: ok = False
            elif op == 'add':
                if 'nbdime-conflicts' not in m: m['nbdime-conflicts'] = copy.deepcopy(rec2)
                else: ok = False
        if not ok or (lop == 'keep' and rop == 'keep'): continue
        md(l)['k'] = 'local'; md(r)['k'] = 'remote'
        out.append({'b': base, 'l': l, 'r': r, 'src': 'crafted:record_touched'})
    return out

_LIFT_LEVELS = ('nb', 'cell', 'output')
_LIFT_CONFLICTS = ('change-change', 'add-add', 'remove-change', 'in-group', 'nested-dict')
_LIFT_PAIRS = ('edit-edit', 'add-remove', 'edit-deep', 'deep-deep')
_LIFT_LATER = ('source-edit', 'cell-append', 'cell0-md', 'source-conflict', 'cell0-delete', 'same-cell-outputs')


def _lift_apply(mdl, mdr, conflict, pair, depth, gname, cname, salt=0):
    """mdl / mdr: the SAME metadata dict (already holding the group and the conflict key) in local / remote, edited in place:
    a genuine conflict inside the dict + two one-sided, non-conflicting edits below one shared sub-key of it"""
    def grp(m): return m['outer'][gname] if depth else m[gname]
    gl, gr = grp(mdl), grp(mdr)
    if conflict == 'change-change': mdl[cname] = 'cL%d' % salt; mdr[cname] = 'cR%d' % salt
    elif conflict == 'add-add': mdl[cname + '+'] = 'cL'; mdr[cname + '+'] = {'r': salt}
    elif conflict == 'remove-change': del mdl[cname]; mdr[cname] = 'cR%d' % salt
    elif conflict == 'in-group': gl['c'] = 'L%d' % salt; gr['c'] = 'R%d' % salt
    else: mdl['nest']['k'] = 2 + salt; mdr['nest']['k'] = 'three'
    if pair == 'edit-edit': gl['a'] = gl['a'] + 10 + salt; gr['b'] = gr['b'] + ' (remote)'
    elif pair == 'add-remove': gl['new'] = [1, salt]; del gr['b']
    elif pair == 'edit-deep': gl['a'] = -1 - salt; gr['sub']['x'] = 'x-remote'
    else: gl['sub']['x'] = 100 + salt; gr['sub']['y'] = 200 + salt


def _lift_base_md(md, depth, gname, cname, conflict):
    group = {'a': 1, 'b': 'two', 'c': True, 'sub': {'x': 1, 'y': 2}}
    if depth: md['outer'] = {gname: group, 'other': 0}
    else: md[gname] = group
    if conflict != 'add-add': md[cname] = 'c0'
    md['nest'] = {'k': 1, 'j': 1}


def lifted_group_triples(r, n_random, gennb, quick=True):
    """A resolver that LIFTS decisions back to one path (record-conflict on /metadata, /cells/*/metadata and
    /cells/*/outputs/*/metadata wraps every decision of the dict into patch ops at the dict) meets: a genuine conflict in the
    dict, two one-sided non-conflicting edits below ONE shared sub-key of it (so the lifted decisions carry several patch
    entries for the same key), and some other change whose decision is applied AFTER that group (decisions are applied in
    reverse path order: /metadata first, then /cells from the last cell to the first; inside a cell source, metadata,
    outputs from the last output to the first).  Systematic part: level x conflict shape x shape of the one-sided pair
    (pairwise-covering half in the quick tier), with depth of the shared key, kind of the later change, minor and the
    local/remote orientation cycling; random part: the same on generated notebooks."""
    def stream(t): return {'output_type': 'stream', 'name': 'stdout', 'text': t}
    def disp(): return {'output_type': 'display_data', 'data': {'text/plain': 'fig'}, 'metadata': {}}
    def code(minor, src, i, outs, ec):
        c = {'cell_type': 'code', 'execution_count': ec, 'metadata': {}, 'outputs': outs, 'source': src}
        if minor >= 5: c['id'] = 'lift-%d' % i
        return c
    out = []; n = 0
    for li, level in enumerate(_LIFT_LEVELS):
        for ci, conflict in enumerate(_LIFT_CONFLICTS):
            for pi, pair in enumerate(_LIFT_PAIRS):
                n += 1
                if quick and (li + ci + pi) % 2: continue
                depth = (n // 2) % 2; later = _LIFT_LATER[n % len(_LIFT_LATER)]; minor = (5, 4, 5, 2)[n % 4]; swap = (n // 3) % 2
                gname = ('settings', 'grp', 'x/y')[n % 3]; cname = ('owner', 'zz', 'a0')[(n // 2) % 3]   # the conflict key sorts before / after the group
                b = {'cells': [code(minor, 'x = 1\ny = 2\n', 0, [stream('zero\n')], 1),
                               code(minor, 'def f():\n    return 3\n', 1, [stream('one\n'), disp()], 2)],
                     'metadata': {}, 'nbformat': 4, 'nbformat_minor': minor}
                def md(nb):
                    if level == 'nb': return nb['metadata']
                    if level == 'cell': return nb['cells'][1]['metadata']
                    return nb['cells'][1]['outputs'][1]['metadata']
                _lift_base_md(md(b), depth, gname, cname, conflict)
                l = copy.deepcopy(b); rm = copy.deepcopy(b)
                _lift_apply(md(l), md(rm), conflict, pair, depth, gname, cname, n % 3)
                if later == 'source-edit': l['cells'][0]['source'] += 'z = 3\n'
                elif later == 'cell-append': rm['cells'].append(code(minor, 'appended()\n', 2, [], None))
                elif later == 'cell0-md': rm['cells'][0]['metadata']['k'] = 1
                elif later == 'source-conflict': l['cells'][0]['source'] = 'x = 10\ny = 2\n'; rm['cells'][0]['source'] = 'x = 11\ny = 2\n'
                elif later == 'same-cell-outputs': l['cells'][1]['outputs'][0]['text'] = 'one\nmore\n'
                if later == 'cell0-delete':     # the cell BEFORE the one holding the group goes away (local) -- after the edits above
                    del l['cells'][0]
                if swap: l, rm = rm, l
                out.append({'b': b, 'l': l, 'r': rm, 'src': 'crafted:lifted_group_not_last'})
    for i in range(n_random):
        minor = r.choice([0, 3, 4, 5, 5])
        b = gennb.gen_notebook(r, minor=minor, ncells=r.choice([1, 2, 3]), rich=False)
        used = gennb.used_ids(b)
        # where the group lives: notebook metadata, a cell's metadata, or the metadata of a display_data output
        places = [('nb', None, None)] + [('cell', j, None) for j in range(len(b['cells']))] + \
                 [('output', j, k) for j, c in enumerate(b['cells']) for k, o in enumerate(c.get('outputs', [])) if o.get('output_type') in ('display_data', 'execute_result')]
        level, j, k = r.choice(places)
        def md(nb):
            if level == 'nb': return nb['metadata']
            if level == 'cell': return nb['cells'][j]['metadata']
            return nb['cells'][j]['outputs'][k]['metadata']
        conflict = r.choice(_LIFT_CONFLICTS); pair = r.choice(_LIFT_PAIRS); depth = r.choice([0, 0, 1])
        gname = r.choice(['settings', 'grp', 'custom2', 'x/y']); cname = r.choice(['owner', 'zz', 'a0'])
        _lift_base_md(md(b), depth, gname, cname, conflict)
        l = copy.deepcopy(b); rm = copy.deepcopy(b)
        _lift_apply(md(l), md(rm), conflict, pair, depth, gname, cname, r.randint(0, 5))
        # something applied later: a change in an earlier cell (any cell for the notebook level), or a cell inserted in front
        side = r.choice([l, rm]); first = len(b['cells']) if level == 'nb' else j
        what = r.choice(['source', 'source', 'metadata', 'insert-front', 'both-source']) if first > 0 else 'insert-front'
        if what == 'insert-front': side['cells'].insert(0, gennb.gen_cell(r, minor, used, rich=False))
        else:
            q = r.randrange(first); c = b['cells'][q]
            if what == 'metadata': side['cells'][q]['metadata']['lifted_k'] = r.randint(0, 9)
            else:
                side['cells'][q]['source'] = gennb.edit_source_text(r, c['source'], c['cell_type']) if c['source'] else 'new source\n'
                if what == 'both-source':
                    other = rm if side is l else l
                    other['cells'][q]['source'] = c['source'] + ('' if c['source'].endswith('\n') or not c['source'] else '\n') + 'other side\n'
        out.append({'b': b, 'l': l, 'r': rm, 'src': 'crafted:lifted_group_not_last_gen'})
    return out


_LOC_CHARS = {      # kinds of non-ASCII text, by what can encode them
    'latin1': ['caf\xe9', 'r\xe9sum\xe9 \xfc\xf1', '\xe5 \xf8 \xdf'],      # 8-bit western code pages can encode these, ASCII cannot
    'bmp': ['\u03b1\u03b2\u03b3 \u2013 \u0416', 'x \u2264 y \u2192 z', '\u20ac 5'],      # outside latin-1
    'cjk': ['\u65e5\u672c\u8a9e', '\u4e2d\u6587 \ud55c\uae00'],
    'astral': ['\U0001f600 ok', 'set \U0001d4b3'],      # outside the BMP (surrogate pairs in UTF-16)
    'combining': ['e\u0301 a\u0308', 'n\u0303o'],      # base letter + combining mark
    'space': ['a\xa0b', '\u200bzero', '\ufeffbom'],      # non-ASCII blanks / format characters (NBSP, ZWSP, BOM)
}
_LOC_SHAPES = ('disjoint', 'same-line', 'both-append', 'similar-insert', 'delete-vs-edit-line')
_LOC_WHERE = ('untouched-line', 'local-edit', 'remote-edit', 'both-edits', 'everywhere')


def _loc_texts(shape, where, word, k, newline_at_end=True):
    """(base, local, remote) source texts of ONE cell: both sides change it, differently; `word` (non-ASCII) is put where
    `where` says: only in a line neither side touches, only in what local / remote writes, in both edits, or everywhere"""
    def w(place): return (' ' + word) if where == 'everywhere' or where == place else ''
    kind_line = ('# notes%s\n', 'title = "t%s"\n', 'print("v%s")\n')[k % 3]
    base = ['import os\n', kind_line % w('untouched-line'), 'x = 1\n', 'y = 2\n', 'z = x + y\n', 'print(z)\n']
    l = list(base); rm = list(base)
    wl = w('local-edit') or w('both-edits'); wr = w('remote-edit') or w('both-edits')
    if shape == 'disjoint':
        l[0] = 'import os, sys  #%s\n' % wl; rm[5] = 'print(z, "done%s")\n' % wr
    elif shape == 'same-line':
        l[3] = 'y = "L%s"\n' % wl; rm[3] = 'y = "R%s"\n' % wr
    elif shape == 'both-append':
        l.append('local_tail = "%s"\n' % wl.strip()); rm.append('remote_tail = "%s"\n' % wr.strip())
    elif shape == 'delete-vs-edit-line':
        del l[2]; l[0] = 'import os  #%s\n' % wl; rm[2] = 'x = 10  #%s\n' % wr
    else:   # similar-insert: the three texts are those of a NEW cell (base is not used)
        l[3] = 'y = "L%s"\n' % wl; rm[3] = 'y = "R%s"\n' % wr
    out = [''.join(x) for x in (base, l, rm)]
    if not newline_at_end: out = [x[:-1] for x in out]
    return out


def _loc_cell(kind, minor, src, cid):
    c = {'cell_type': kind, 'metadata': {}, 'source': src}
    if kind == 'code': c.update({'execution_count': None, 'outputs': []})
    if minor >= 5: c['id'] = cid
    return c


def locale_text_triples(r, n_random, gennb, quick=True):
    """Non-ASCII text where it reaches an external text-merge helper (temp files written for git merge-file / diff3, their
    output read back): the source of a cell BOTH sides edit (inline-source) and the sources of similar cells both sides insert
    (inline-cells).  Systematic part: shape of the two edits x where the non-ASCII text sits (a line nobody touches / one
    side's edit / both / everywhere) x kind of character (latin-1, other BMP, CJK, astral, combining, non-ASCII blanks)
    (a covering third in the quick tier), with cell kind, minor, trailing newline and orientation cycling; random part: a
    generated notebook, a random cell of it given such a two-sided edit.  Meant to be merged under process locales whose
    default file encoding cannot represent the text (and under UTF-8 ones)."""
    out = []; n = 0
    classes = sorted(_LOC_CHARS)
    for si, shape in enumerate(_LOC_SHAPES):
        for wi, where in enumerate(_LOC_WHERE):
            for ci, cls in enumerate(classes):
                n += 1
                if quick and (si + wi + ci) % 3: continue
                word = _LOC_CHARS[cls][n % len(_LOC_CHARS[cls])]
                kind = ('code', 'markdown', 'code', 'raw')[n % 4]; minor = (5, 4, 5, 2)[(n // 2) % 4]; swap = (n // 3) % 2
                tb, tl, tr = _loc_texts(shape, where, word, n, newline_at_end=bool(n % 5))
                first = _loc_cell('code', minor, 'setup = 0\n', 'loc-0')
                if shape == 'similar-insert':
                    b = {'cells': [first], 'metadata': {}, 'nbformat': 4, 'nbformat_minor': minor}
                    l = copy.deepcopy(b); rm = copy.deepcopy(b)
                    l['cells'].append(_loc_cell(kind, minor, tl, 'loc-l')); rm['cells'].append(_loc_cell(kind, minor, tr, 'loc-r'))
                else:
                    b = {'cells': [first, _loc_cell(kind, minor, tb, 'loc-1')], 'metadata': {}, 'nbformat': 4, 'nbformat_minor': minor}
                    l = copy.deepcopy(b); rm = copy.deepcopy(b)
                    l['cells'][1]['source'] = tl; rm['cells'][1]['source'] = tr
                if swap: l, rm = rm, l
                out.append({'b': b, 'l': l, 'r': rm, 'src': 'locale_text:%s/%s/%s' % (shape, where, cls)})
    for i in range(n_random):
        minor = r.choice([0, 4, 4, 5, 5])
        b = gennb.gen_notebook(r, minor=minor, ncells=r.choice([1, 2, 3]), rich=False)
        shape = r.choice(_LOC_SHAPES); where = r.choice(_LOC_WHERE); cls = r.choice(classes)
        word = ' '.join(r.choice(_LOC_CHARS[c]) for c in ([cls] + ([r.choice(classes)] if r.random() < 0.4 else [])))
        tb, tl, tr = _loc_texts(shape, where, word, r.randint(0, 5), newline_at_end=r.random() < 0.7)
        l = copy.deepcopy(b); rm = copy.deepcopy(b)
        if shape == 'similar-insert':
            pos = r.randint(0, len(b['cells'])); used = gennb.used_ids(b); kind = r.choice(['code', 'markdown', 'raw'])
            cl = _loc_cell(kind, minor, tl, gennb.gen_id(r, used)); cr = _loc_cell(kind, minor, tr, gennb.gen_id(r, used))
            l['cells'].insert(pos, cl); rm['cells'].insert(pos, cr)
        else:
            j = r.randrange(len(b['cells']))
            keep = b['cells'][j]['source'] if r.random() < 0.5 else ''      # (sometimes the generated text stays in front)
            if keep and not keep.endswith('\n'): keep += '\n'
            b['cells'][j]['source'] = keep + tb; l['cells'][j]['source'] = keep + tl; rm['cells'][j]['source'] = keep + tr
        out.append({'b': b, 'l': l, 'r': rm, 'src': 'locale_text_gen:%s/%s/%s' % (shape, where, cls)})
    return out


def locale_configs(cfgs, r, n_more=2):
    """configurations for the process-locale leg: every one that sends a two-sided source edit to the text-merge helper with
    the default output handling (inline merge strategy with input strategy unset / inline, or input strategy inline under any
    merge strategy; transients off for two of them), the web tool, two that do not (controls), and a few more inline ones at random"""
    def inline_source(c): return c[4] == 'cli' and ((c[0] == 'inline' and c[1] is None) or c[1] == 'inline')
    out = [c for c in cfgs if inline_source(c) and c[2] is None and (c[3] or (c[0] == 'inline' and c[1] is None) or c[0] == 'use-local')]
    out += [c for c in cfgs if c[4] == 'web']
    out += [c for c in cfgs if c[:4] in (['use-local', None, None, True], ['inline', 'use-base', None, True])]
    rest = [c for c in cfgs if inline_source(c) and c not in out]
    r.shuffle(rest)
    return out + rest[:n_more]


def locale_modes(quick=True):
    """tool availability x process-locale variant for the locale leg.  The plain modes are the UTF-8 controls."""
    if not quick:
        return list(MODES) + ['%s@%s' % (m, loc) for loc in LOCALES for m in MODES]
    return ['git', 'diff3', 'none', 'git@C', 'diff3@C', 'none@C', 'git@POSIX', 'diff3@C-ioutf8', 'git@C-tmpdir', 'diff3@C-tmpdir',
            'git@utf8-tmpdir', 'diff3@utf8-tmpdir']


def crafted_triples(r, n, gennb):
    """collisions the edit-script generator rarely produces: both sides append different outputs / add the same attachment
    name / add the same metadata key / insert similar cells with different attachments, at a random cell of a generated base"""
    out = []
    for i in range(n):
        b = gennb.gen_notebook(r, ncells=r.choice([1, 2, 3, 4]))
        l = copy.deepcopy(b); rr = copy.deepcopy(b)
        kind = ['append_outputs', 'add_attachment', 'add_metadata', 'similar_insert_attachments', 'append_outputs_one_edit', 'insert_blocks', 'empty_source_vs_edit', 'minor_both', 'same_insert_plus_delete'][i % 9]
        code = [j for j, c in enumerate(b['cells']) if c['cell_type'] == 'code']
        text = [j for j, c in enumerate(b['cells']) if c['cell_type'] in ('markdown', 'raw')]
        if kind.startswith('append_outputs') and code:
            j = r.choice(code)
            l['cells'][j]['outputs'].append(gennb.gen_output(r, kind='stream'))
            rr['cells'][j]['outputs'].append(gennb.gen_output(r))
            if kind.endswith('one_edit') and b['cells'][j]['outputs']:
                gennb.edit_output(r, l['cells'][j]['outputs'][0])
        elif kind == 'add_attachment' and text:
            j = r.choice(text); name = r.choice(['image.png', 'a b.jpg', 'x'])
            for side in (l, rr):
                att = dict(side['cells'][j].get('attachments') or {}); att[name] = gennb.gen_mimebundle(r, attachment=True)
                side['cells'][j]['attachments'] = att
        elif kind == 'add_metadata' and b['cells']:
            j = r.randrange(len(b['cells'])); key = r.choice(['newkey', 'tags2', 'k'])
            l['cells'][j]['metadata'][key] = r.choice([1, 'a', [1], {'x': 1}]); rr['cells'][j]['metadata'][key] = r.choice([2, 'b', [2], {'x': 2}])
        elif kind == 'empty_source_vs_edit' and b['cells']:
            j = r.randrange(len(b['cells'])); c = b['cells'][j]
            if not c['source']:
                for nb in (b, l, rr): nb['cells'][j]['source'] = gennb.gen_source(r, c['cell_type'], 3)
            e, k = (l, rr) if r.random() < 0.5 else (rr, l)
            e['cells'][j]['source'] = ''
            k['cells'][j]['source'] = gennb.edit_source_text(r, b['cells'][j]['source'], c['cell_type'])
        elif kind == 'minor_both':
            # both sides save with a different, newer minor version (cells without ids: valid for minors < 5)
            b = gennb.gen_notebook(r, minor=r.choice([0, 1, 2]), ncells=r.choice([1, 2]))
            l = copy.deepcopy(b); rr = copy.deepcopy(b)
            l['nbformat_minor'] = 3; rr['nbformat_minor'] = 4
            if b['cells']: l['cells'][0]['source'] = gennb.edit_source_text(r, b['cells'][0]['source'], b['cells'][0]['cell_type'])
        elif kind == 'same_insert_plus_delete' and b['cells']:
            # both insert the same (or an extended) run at a position; one or both also delete the base cell that follows
            pos = r.randrange(len(b['cells'])); used = gennb.used_ids(b); minor = b['nbformat_minor']
            run = [gennb.gen_cell(r, minor, used) for _ in range(r.choice([1, 1, 2]))]
            extra = [gennb.gen_cell(r, minor, used)] if r.random() < 0.4 else []
            l['cells'][pos:pos] = copy.deepcopy(run); rr['cells'][pos:pos] = copy.deepcopy(run) + extra
            del l['cells'][pos + len(run)]
            if r.random() < 0.3: del rr['cells'][pos + len(run) + len(extra)]
        elif kind == 'insert_blocks':
            # both sides insert runs at the same position: dissimilar blocks of unequal length, then a similar pair, then maybe more
            pos = r.randint(0, len(b['cells'])); used = gennb.used_ids(b); minor = b['nbformat_minor']
            def fresh(k=None): return gennb.gen_cell(r, minor, used, kind=k)
            # (the first instances have non-empty blocks of unequal length: the local/remote offset then matters)
            nl, nr = [(2, 1), (1, 2), (3, 1), (1, 3), (0, 1), (2, 2), (1, 0), (3, 2)][(i // 9) % 8] if i < 72 else (r.choice([0, 1, 2, 3]), r.choice([0, 1, 2]))
            la = [fresh() for _ in range(nl)]; ra = [fresh() for _ in range(nr)]
            s1 = fresh(r.choice(['code', 'markdown'])); s2 = copy.deepcopy(s1)
            if 'id' in s2: s2['id'] = gennb.gen_id(r, used)
            s2['source'] = gennb.edit_source_text(r, s2['source'], s2['cell_type'], 'tiny')
            lz = [fresh() for _ in range(r.choice([0, 0, 1]))]; rz = [fresh() for _ in range(r.choice([0, 0, 1, 2]))]
            l['cells'][pos:pos] = la + [s1] + lz; rr['cells'][pos:pos] = ra + [s2] + rz
        else:
            pos = r.randint(0, len(b['cells']))
            c1 = {'cell_type': 'markdown', 'metadata': {}, 'source': gennb.gen_source(r, 'markdown', 3), 'attachments': {'p.png': gennb.gen_mimebundle(r, attachment=True)}}
            if b['nbformat_minor'] >= 5: c1['id'] = gennb.gen_id(r, gennb.used_ids(b))
            c2 = copy.deepcopy(c1); c2['attachments'] = {'p.png': gennb.gen_mimebundle(r, attachment=True)} if r.random() < 0.7 else {}
            if r.random() < 0.3: del c2['attachments']
            if 'id' in c2: c2['id'] = gennb.gen_id(r, gennb.used_ids(b) | {c1['id']})
            l['cells'].insert(pos, c1); rr['cells'].insert(pos, c2)
        out.append({'b': b, 'l': l, 'r': rr, 'src': 'crafted:' + kind})
    return out


def _delete_vs_multi_field_edit(t):
    """one side dropped a base cell (removed it, or replaced it by a cell the differ does not align with it: no cell with that
    source is left); the other side changed the source AND something else of that base cell"""
    for d, e in (('l', 'r'), ('r', 'l')):
        for cb in _cells(t['b']):
            if any(c.get('source') == cb.get('source') and c.get('cell_type') == cb.get('cell_type') for c in _cells(t[d])): continue
            for ce in _cells(t[e]):
                if ce.get('cell_type') != cb.get('cell_type') or ce.get('source') == cb.get('source'): continue
                if any(ce.get(k) != cb.get(k) for k in ('outputs', 'metadata', 'execution_count', 'attachments')):
                    return True
    return False


def _has_noncontainer_split_json_mime(t):
    for k in 'blr':
        for c in _cells(t[k]):
            for o in c.get('outputs', []):
                for mt, v in (o.get('data') or {}).items():
                    if mt.lower().startswith('application/json') and not isinstance(v, (list, dict, str)): return True
    return False


def shrink_triple(sb, t, cfg, mode, sig, budget=40):
    """greedy: drop cells, outputs, metadata while the failure keeps the same (refined) signature under the same configuration"""
    def fails(c):
        r = run(sb, [{'op': 'merge_all', 'b': c['b'], 'l': c['l'], 'r': c['r'], 'cfgs': [cfg]}], mode, shards=1)[0]
        if not ('res' in r and 'err' in r['res'][0]): return False
        one = r['res'][0]
        return refine_signature(error_signature(one), c, {'msg': one.get('msg')}) == sig
    def cands(c):
        n = [len(c[k]['cells']) for k in 'blr']
        for i in reversed(range(max(n))):
            d = copy.deepcopy(c)
            for k in 'blr':
                if i < len(d[k]['cells']): del d[k]['cells'][i]
            yield d
        for k in 'blr':
            for i in reversed(range(len(c[k]['cells']))):
                d = copy.deepcopy(c); del d[k]['cells'][i]; yield d
        for i in range(max(n)):
            for field, empty in (('outputs', []), ('metadata', {}), ('attachments', None)):
                d = copy.deepcopy(c); ch = False
                for k in 'blr':
                    if i < len(d[k]['cells']) and d[k]['cells'][i].get(field):
                        if empty is None: del d[k]['cells'][i][field]
                        else: d[k]['cells'][i][field] = copy.deepcopy(empty)
                        ch = True
                if ch: yield d
        d = copy.deepcopy(c); ch = False
        for k in 'blr':
            if d[k].get('metadata'): d[k]['metadata'] = {}; ch = True
        if ch: yield d
        for i in range(max(n)):
            d = copy.deepcopy(c); ch = False
            for k in 'blr':
                if i < len(d[k]['cells']):
                    s = d[k]['cells'][i].get('source', '')
                    if len(s) > 12: d[k]['cells'][i]['source'] = s[:6]; ch = True
            if ch: yield d
    c = {'b': t['b'], 'l': t['l'], 'r': t['r']}
    try:
        c = core.shrink(c, fails, cands, budget=budget)
    except Exception:
        pass
    return {'b': c['b'], 'l': c['l'], 'r': c['r'], 'src': t.get('src', '')}


# ------------------------------------------------------------------ executed tie of the generated dispatch chains
def coq_str(s):
    if all(32 <= ord(c) < 127 and c != '"' for c in s): return '(of_ascii "%s")' % s
    return '[' + '; '.join('%d%%N' % ord(c) for c in s) + ']'


def coq_opt(s):
    return 'None' if s is None else '(Some %s)' % coq_str(s)


def run_cases_v(text, timeout=300, rebuild=('Props/C03.vo', 'Props/C10.vo')):
    """evaluate a generated cases file under coqc; returns (ok, output).  If another member's concurrent build left the
    compiled closure momentarily inconsistent, the closure is rebuilt once and the evaluation retried."""
    for attempt in (0, 1):
        d = tempfile.mkdtemp(prefix='nbv_cases_')
        try:
            f = os.path.join(d, 'cases.v'); open(f, 'w').write(text)
            p = subprocess.run(['timeout', str(timeout), 'coqc', '-Q', core.COQ, 'NB', f], capture_output=True, text=True, cwd=d)
            out = p.stdout + p.stderr
        finally:
            shutil.rmtree(d, ignore_errors=True)
        if p.returncode == 0: return True, out
        if attempt == 0 and ('inconsistent assumptions' in out or 'Cannot find a physical path' in out or 'not found in loadpath' in out) and hasattr(core, 'build_targets'):
            try: core.build_targets(list(rebuild))
            except Exception: pass
            continue
        return False, out
    return False, out


def parse_nat_list(out):
    m = re.search(r'=\s*\[(.*?)\]\s*:\s*list nat', out, re.S)
    if m is None: return None
    body = m.group(1).strip()
    return [int(x) for x in re.split(r'[;\s]+', body) if x] if body else []


def dispatcher_correspondence(chk, sb):
    """Run the five real dispatchers on every strategy string of the universe (callees and logging replaced by recorders)
    and compare what is observed with what StrategyTable.probe_expected predicts for the arm the generated chain selects."""
    res = run(sb, [{'op': 'probe'}])[0]
    if 'ok' not in res:
        chk.broken_obligation('correspondence:dispatchers', {'runner': res}); return 0, 0
    obs = res['ok']
    terms = []
    for o in obs:
        terms.append('(%d, %s, {| po_ret := %s; po_raise := %s; po_events := [%s]; po_decs := [%s] |})' % (
            o['d'], coq_str(o['s']), coq_opt(o['ret']), coq_opt(o['raise']), '; '.join(coq_str(e) for e in o['events']),
            '; '.join('(%s, %s)' % (coq_str(a), 'true' if c else 'false') for a, c in o['decs'])))
    text = ('From Coq Require Import List NArith String.\nFrom NB Require Import Base.Json Diff.Codec Merge.StrategyBase Gen.Strategies Merge.StrategyTable.\n'
            'Import ListNotations.\nDefinition cases : list (nat * pystr * probe_obs) :=\n [%s].\nEval vm_compute in (probe_mismatches 0 cases).\n' % ';\n  '.join(terms))
    ok, out = run_cases_v(text)
    bad = parse_nat_list(out) if ok else None
    if bad is None:
        chk.broken_obligation('correspondence:dispatchers', {'coqc': out[-800:]}); return 0, 0
    for i in bad[:3]:
        chk.broken_obligation('correspondence:dispatchers', {'dispatcher': obs[i]['d'], 'strategy': obs[i]['s'], 'observed': obs[i],
                                                             'note': 'the real dispatcher does not do what the arm selected by the generated chain predicts'})
    return len(obs), len(bad)


# ------------------------------------------------------------------ executed tie of the clear-all arm model
def coq_key(k):
    return '(KI %d)' % k if isinstance(k, int) else '(KS %s)' % coq_str(k)


def coq_json(v):
    if v is None: return 'JNull'
    if isinstance(v, bool): return '(JBool %s)' % ('true' if v else 'false')
    if isinstance(v, int): return '(JInt (%d)%%Z)' % v
    if isinstance(v, str): return '(JStr %s)' % coq_str(v)
    if isinstance(v, list): return '(JArr [%s])' % '; '.join(coq_json(x) for x in v)
    if isinstance(v, dict): return '(JObj [%s])' % '; '.join('(%s, %s)' % (coq_str(k), coq_json(x)) for k, x in sorted(v.items()))
    raise ValueError(v)


def coq_entry(e):
    op = e['op']; k = coq_key(e['key'])
    if op == 'add': return '(DAdd %s %s)' % (k, coq_json(e['value']))
    if op == 'remove': return '(DRemove %s)' % k
    if op == 'replace': return '(DReplace %s %s)' % (k, coq_json(e['value']))
    if op == 'addrange': return '(DAddRange %s (VList [%s]))' % (k, '; '.join(coq_json(x) for x in e['valuelist']))
    if op == 'removerange': return '(DRemoveRange %s %d)' % (k, e['length'])
    if op == 'patch': return '(DPatch %s [%s])' % (k, '; '.join(coq_entry(x) for x in e['diff']))
    raise ValueError(op)


def coq_odiff(d):
    return 'None' if d is None else '(Some [%s])' % '; '.join(coq_entry(e) for e in d)


def coq_decision(d):
    return '(mkDec [%s] (action_of_name %s) %s %s %s %s %s None)' % (
        '; '.join(coq_key(k) for k in d['common_path']), coq_str(d['action']), 'true' if d['conflict'] else 'false',
        coq_odiff(d.get('local_diff')), coq_odiff(d.get('remote_diff')),
        coq_odiff(d['custom_diff']) if 'custom_diff' in d else 'None', coq_opt(d.get('strategy')))


def gen_clear_all_cases(r, n):
    """builders as they reach the outputs list of a cell: conflicts on the list, decisions one or two levels below (int keys
    on list items, str keys on dicts), None / [] / non-empty diffs, strategy marks, sometimes a foreign path"""
    cases = []
    def ops(level_is_list, m):
        out = []
        for _ in range(m):
            if level_is_list:
                k = r.randint(0, 2)
                out.append(r.choice([{'op': 'addrange', 'key': k, 'valuelist': [r.randint(0, 5)]}, {'op': 'removerange', 'key': k, 'length': 1},
                                     {'op': 'patch', 'key': k, 'diff': [{'op': 'replace', 'key': r.choice('ab'), 'value': r.randint(0, 5)}]}]))
            else:
                k = r.choice(['a', 'b', 'metadata'])
                out.append(r.choice([{'op': 'replace', 'key': k, 'value': r.randint(0, 5)}, {'op': 'add', 'key': k, 'value': 's'}, {'op': 'remove', 'key': k},
                                     {'op': 'patch', 'key': k, 'diff': [{'op': 'replace', 'key': 'x', 'value': 1}]}]))
        return out
    for i in range(n):
        path = ['cells', r.randint(0, 1), 'outputs']
        decs = []
        for j in range(r.choice([1, 2, 2, 3, 4])):
            extra = r.choice([[], [], [r.randint(0, 2)], [r.randint(0, 2), r.choice(['metadata', 'data'])]])
            cp = path + extra
            if r.random() < 0.05: cp = ['cells', 7, 'outputs'] + extra
            is_list = len(extra) == 0
            def side():
                c = r.random()
                if c < 0.12: return None
                if c < 0.2: return []
                return ops(is_list, r.choice([1, 1, 2]))
            d = {'common_path': cp, 'action': r.choice(['base', 'local', 'remote', 'custom', 'either']), 'conflict': (j == 0) or r.random() < 0.4,
                 'local_diff': side(), 'remote_diff': side()}
            if d['action'] == 'custom': d['custom_diff'] = ops(is_list, 1)
            if r.random() < 0.3: d['strategy'] = r.choice(['record-conflict', 'inline-outputs'])
            decs.append(d)
        cases.append({'path': path, 'base': [{}] * r.randint(0, 3), 'decisions': decs})
    return cases


def clear_all_correspondence(chk, sb, n=120):
    # first the two witnesses of StrategiesProofs.clear_all_refuted_pinned (w_none, w_mixed), replayed on the implementation
    wp = ['cells', 0, 'outputs']
    wc = {'common_path': wp, 'action': 'base', 'conflict': True, 'local_diff': [{'op': 'addrange', 'key': 1, 'valuelist': [1]}],
          'remote_diff': [{'op': 'addrange', 'key': 1, 'valuelist': [2]}]}
    witnesses = [
        {'path': wp, 'base': [{}, {}], 'decisions': [wc, {'common_path': wp + [0], 'action': 'remote', 'conflict': False, 'local_diff': None,
                                                           'remote_diff': [{'op': 'replace', 'key': 'a', 'value': 3}]}]},
        {'path': wp, 'base': [{}, {}], 'decisions': [wc, {'common_path': wp + [0, 'metadata'], 'action': 'custom', 'conflict': True,
                                                           'local_diff': [{'op': 'replace', 'key': 'a', 'value': 2}], 'remote_diff': [{'op': 'replace', 'key': 'a', 'value': 3}],
                                                           'custom_diff': [{'op': 'add', 'key': 'nbdime-conflicts', 'value': {}}], 'strategy': 'record-conflict'}]}]
    cases = witnesses + gen_clear_all_cases(chk.rng, n)
    res = run(sb, [{'op': 'clear_all', 'cases': cases}], shards=1)[0]
    if 'ok' not in res:
        chk.broken_obligation('correspondence:clear-all', {'runner': res}); return 0, 0
    terms = []
    for c, o in zip(cases, res['ok']):
        obs = '(inl %s)' % coq_str(o['err']) if 'err' in o else '(inr [%s])' % '; '.join(coq_decision(d) for d in o['ok'])
        terms.append('([%s], [%s], [%s], %s)' % ('; '.join(coq_key(k) for k in c['path']), '; '.join(coq_json(x) for x in c['base']),
                                               '; '.join(coq_decision(d) for d in c['decisions']), obs))
    text = ('From Coq Require Import List NArith ZArith String.\nFrom NB Require Import Base.Json Base.Res Diff.DiffFormat Diff.Codec Merge.SortKey Merge.Decisions Merge.StrategyBase Gen.Strategies Merge.StrategyTable Merge.Strategies.\n'
            'Import ListNotations.\nDefinition cases : list (path * list json * builder * (pystr + builder)) :=\n [%s].\nEval vm_compute in (clear_all_mismatches 0 cases).\n' % ';\n  '.join(terms))
    ok, out = run_cases_v(text)
    bad = parse_nat_list(out) if ok else None
    if bad is None:
        chk.broken_obligation('correspondence:clear-all', {'coqc': out[-800:]}); return 0, 0
    for i in bad[:3]:
        chk.broken_obligation('correspondence:clear-all', {'case': cases[i], 'observed': res['ok'][i],
                                                           'note': 'Strategies.clear_all_arm (variant %s) disagrees with the real clear-all arm' % 'generated'})
    hist = {}
    for o in res['ok']: hist[o.get('err', 'ok')] = hist.get(o.get('err', 'ok'), 0) + 1
    chk.cov['clear_all_outcomes'] = hist
    return len(cases), len(bad)
