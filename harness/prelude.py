"""Optional process history for the implementation runners: with NBV_PRELUDE=abort in the environment the runner first makes
one library call that RAISES BY DESIGN in the middle of a nested operation -- a generic three-way merge of a document whose
multi-line string both sides changed, under the documented strategy "fail" for that path (the exception surfaces from inside
the line-wise string merge) -- swallows the exception, and then serves its tasks in the same interpreter.  A long-lived
process (Jupyter server extension, web tool) meets exactly this: whatever the failed call left behind must not show in any
later result, so the property's own judge is applied to the later results unchanged."""
import os

def maybe_abort_prelude():
    if os.environ.get('NBV_PRELUDE') != 'abort':
        return None
    try:
        from nbdime.merging.generic import decide_merge
        from nbdime.utils import Strategies
        text = ''.join('line %d of the notes\n' % i for i in range(6))
        ls = text.splitlines(True)
        l = ''.join(ls[:2] + [ls[2].rstrip('\n') + ' L\n'] + ls[3:])
        r = ''.join(ls[:2] + [ls[2].rstrip('\n') + ' R\n'] + ls[3:])
        decide_merge({'metadata': {'notes': text}}, {'metadata': {'notes': l}}, {'metadata': {'notes': r}},
                     Strategies({'/metadata/notes': 'fail'}))
        return 'no-exception'          # the strategy did not raise: the prelude is vacuous (reported by the check)
    except Exception as e:             # expected
        return type(e).__name__
