"""Evaluates the Gallina models (Ts/TsPatch.v, Ts/TsSplit.v, Diff/Patch.v, Base/PyStr.v) on generated cases with
vm_compute under coqc, and reports the indices of the cases whose recorded implementation result is not reproduced."""
import os, re, json, math, subprocess, tempfile, shutil
from concurrent.futures import ThreadPoolExecutor
import core, wire

def coq_pystr(s):
    parts = []; run = []
    def flush():
        if run: parts.append('S "%s"' % ''.join(run)); run.clear()
    for ch in s:
        o = ord(ch)
        if 32 <= o < 127:
            run.append('""' if ch == '"' else ch)
        else:
            flush(); parts.append('[%d%%N]' % o)
    flush()
    if not parts: return '[]'
    if len(parts) == 1: return '(%s)' % parts[0]
    return '(' + ' ++ '.join(parts) + ')'

def coq_json(v):
    if v is None: return 'JNull'
    if v is True: return 'JBool true'
    if v is False: return 'JBool false'
    if isinstance(v, int): return 'JInt (%d)' % v
    if isinstance(v, float):
        if math.isnan(v) or math.isinf(v): raise ValueError('non-finite')
        m, e = wire.float_me(v); return 'JFlt (%d) (%d)' % (m, e)
    if isinstance(v, str): return 'JStr %s' % coq_pystr(v)
    if isinstance(v, (list, tuple)): return 'JArr [' + '; '.join(coq_json(x) for x in v) + ']'
    if isinstance(v, dict):
        return 'JObj [' + '; '.join('(%s, %s)' % (coq_pystr(k), coq_json(v[k])) for k in sorted(v)) + ']'
    raise ValueError('not JSON: %r' % type(v))

HEADER = ('From Coq Require Import List NArith ZArith String.\n'
          'From NB Require Import Base.Json Ts.TsRun.\nImport ListNotations.\nLocal Open Scope Z_scope.\nLocal Open Scope list_scope.\n')

def _run_file(text, d, name, timeout):
    f = os.path.join(d, name + '.v')
    open(f, 'w').write(text)
    p = subprocess.run(['timeout', str(timeout), 'coqc', '-Q', core.COQ, 'NB', f], capture_output=True, text=True, cwd=d)
    out = p.stdout + p.stderr
    if p.returncode != 0: return None, out[-1500:]
    m = re.search(r'=\s*\[(.*?)\]\s*:\s*list N', out, re.S)
    if not m: return None, out[-1500:]
    body = m.group(1).strip()
    idx = [int(re.sub(r'%N', '', x.strip())) for x in body.split(';') if x.strip()] if body else []
    return idx, ''

def evaluate(kind, cases, chunk=150, timeout=600):
    """kind: 'ts_patch' | 'py_patch' (cases: (a, d, expected)) or 'ts_split' | 'py_split' (cases: (s, expected)).
    Returns (list of mismatching global indices, error text or None)."""
    if not cases: return [], None
    fn = {'ts_patch': 'patch_mismatches ts_patch_json', 'py_patch': 'patch_mismatches py_patch_json',
          'ts_split': 'split_mismatches ts_split_json', 'py_split': 'split_mismatches py_split_json'}[kind]
    d = tempfile.mkdtemp(prefix='nbv_c15coq_')
    try:
        chunks = [cases[i:i + chunk] for i in range(0, len(cases), chunk)]
        def one(ci):
            items = []
            for c in chunks[ci]:
                items.append('(' + ', '.join(coq_json(x) for x in c) + ')')
            text = HEADER + 'Definition cases := [\n' + ';\n'.join(items) + '].\nEval vm_compute in (%s cases).\n' % fn
            return _run_file(text, d, 'Cases%d' % ci, timeout)
        with ThreadPoolExecutor(max_workers=8) as ex:
            res = list(ex.map(one, range(len(chunks))))
    finally:
        shutil.rmtree(d, ignore_errors=True)
    bad = []; err = None
    for ci, (idx, e) in enumerate(res):
        if idx is None: err = e; continue
        bad += [ci * chunk + i for i in idx]
    return bad, err
