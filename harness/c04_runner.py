"""Implementation-side runner for C04 / C09, executed by core.run_impl in a fresh /venv/bin/python with
PYTHONPATH=$NBDIME_REPO:  python c04_runner.py tasks.json results.json
Ops:
  merge      : merge_notebooks(base, local, remote, args) -> merged notebook, decisions (as the JSON nbmerge --decisions
               would write), and nbdime's own apply_decisions on the decisions as given / relabelled to local / remote
  nbmerge_out: the nbmerge command line on temp files with --out -> exit status and the raw JSON of the written file
"""
import sys, os, json, copy, argparse, tempfile, shutil, traceback, io, logging


def exc_info(e):
    return {'err': type(e).__name__, 'msg': str(e)[:300], 'tb': traceback.format_exc(limit=-5)[-1800:]}


def plain(x):
    """exactly what json.dump(decisions, f) of nbmergeapp does (no default=, NaN refused)"""
    return json.loads(json.dumps(x, allow_nan=False))


def mk_args(a):
    return argparse.Namespace(merge_strategy=a.get('merge_strategy', 'inline'), input_strategy=a.get('input_strategy'),
                              output_strategy=a.get('output_strategy'), ignore_transients=a.get('ignore_transients', True),
                              log_level='INFO')


def relabel(decisions, side):
    from nbdime.merging.decisions import MergeDecision
    out = []
    for d in decisions:
        d = MergeDecision(copy.deepcopy(dict(d)))
        d['action'] = side
        if d.get(side + '_diff') is None: d[side + '_diff'] = []
        out.append(d)
    return out


def attempt(f):
    try:
        return {'ok': plain(f())}
    except Exception as e:
        return exc_info(e)


def run_merge(t):
    import nbformat
    from nbdime.merging.notebooks import merge_notebooks
    from nbdime.merging.decisions import apply_decisions
    b = nbformat.from_dict(copy.deepcopy(t['base'])); l = nbformat.from_dict(copy.deepcopy(t['local']))
    r = nbformat.from_dict(copy.deepcopy(t['remote']))
    merged, decisions = merge_notebooks(b, l, r, mk_args(t.get('args', {})))
    res = {'merged': plain(merged)}
    try:
        res['decisions'] = plain(decisions); res['plain'] = True
    except Exception as e:
        res['plain'] = False; res['plain_err'] = repr(e)[:300]
        res['decisions'] = json.loads(json.dumps(decisions, default=repr))
    if t.get('c09'):
        base = lambda: nbformat.from_dict(copy.deepcopy(t['base']))
        res['applied'] = attempt(lambda: apply_decisions(base(), copy.deepcopy(decisions)))
        res['as_local'] = attempt(lambda: apply_decisions(base(), relabel(decisions, 'local')))
        res['as_remote'] = attempt(lambda: apply_decisions(base(), relabel(decisions, 'remote')))
    return res


def run_nbmerge_out(t):
    import nbdime.nbmergeapp as app
    d = tempfile.mkdtemp(prefix='nbv_c04_')
    try:
        fns = {}
        for k in ('base', 'local', 'remote'):
            fns[k] = os.path.join(d, k + '.ipynb')
            with io.open(fns[k], 'w', encoding='utf8') as f: json.dump(t[k], f)
        out = os.path.join(d, 'merged.ipynb' if not t.get('decisions') else 'decisions.json')
        argv = [fns['base'], fns['local'], fns['remote'], '--out', out]
        a = t.get('args', {})
        if a.get('merge_strategy'): argv += ['--merge-strategy', a['merge_strategy']]
        if a.get('input_strategy'): argv += ['--input-strategy', a['input_strategy']]
        if a.get('output_strategy'): argv += ['--output-strategy', a['output_strategy']]
        if a.get('ignore_transients') is False: argv += ['--no-ignore-transients']
        if t.get('decisions'): argv += ['--decisions']
        cwd = os.getcwd(); os.chdir(d)
        try:
            try:
                rc = app.main(argv)
            except SystemExit as e:
                rc = e.code
        finally:
            os.chdir(cwd)
        res = {'rc': rc, 'exists': os.path.exists(out)}
        if res['exists']:
            with io.open(out, encoding='utf8') as f: txt = f.read()
            try:
                res['file'] = json.loads(txt)
            except Exception as e:
                res['file_err'] = repr(e)[:200]; res['file_head'] = txt[:200]
        return res
    finally:
        shutil.rmtree(d, ignore_errors=True)


def run_render(t):
    """direct calls of the conflict renderers (strategies.py) for the model correspondence"""
    import nbformat
    from nbdime.merging import strategies as S
    from nbdime.diff_utils import to_diffentry_dicts
    f = t['f']
    if f == 'cell_marker': return {'ok': plain(S.cell_marker(t['text']))}
    if f == 'output_marker': return {'ok': plain(S.output_marker(t['text']))}
    if f == 'inline_cells':
        base = [nbformat.from_dict(copy.deepcopy(c)) for c in t['base_cells']]
        return {'ok': plain(S.make_inline_cell_conflict(base, to_diffentry_dicts(copy.deepcopy(t['local_diff'])),
                                                        to_diffentry_dicts(copy.deepcopy(t['remote_diff']))))}
    if f == 'vocabulary':
        from nbdime.merging.decisions import _sort_key, MergeDecision
        paths = t['paths']
        decs = [MergeDecision(common_path=tuple(p), action='base', conflict=False, local_diff=[], remote_diff=[], n=i) for i, p in enumerate(paths)]
        order = [d['n'] for d in sorted(decs, key=_sort_key, reverse=True)]
        return {'ok': order}
    raise ValueError('unknown renderer ' + f)


def main():
    tasks = json.load(open(sys.argv[1]))
    logging.disable(logging.CRITICAL)      # nbdime's warnings about conflicts are not part of the observation
    results = []
    for t in tasks:
        try:
            if t['op'] == 'merge': results.append(run_merge(t))
            elif t['op'] == 'nbmerge_out': results.append(run_nbmerge_out(t))
            elif t['op'] == 'render': results.append(run_render(t))
            else: raise ValueError('unknown op ' + t['op'])
        except BaseException as e:
            results.append(exc_info(e))
    json.dump(results, open(sys.argv[2], 'w'))


if __name__ == '__main__':
    main()
