"""placeholder, replaced below"""
def run(chk, tier):
    return {'render_cases': 0}
