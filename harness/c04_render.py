"""(K2) Correspondence of the renderer model coq/Merge/Render4.v with nbdime/merging/strategies.py: the real
cell_marker / output_marker / make_inline_cell_conflict are called on generated payloads (c04_runner 'render' op), the
real merge is run on the hand-made triples that fire the similar-insert, record-conflict and inline-attachments
renderers, and the model's value is compared with the implementation's (json_eqb, evaluated under coqc), together with
the validity verdict of the Coq validator on the model's value vs jsonschema on the implementation's value at every
minor.  The latter replays the `_refuted` witnesses of Props/C04.v on the implementation: if the implementation's
marker cell became valid while the model's is still invalid, the model is stale (broken obligation)."""
import os, re, json, copy, subprocess, tempfile, shutil
import core, gennb, c04_coq, c04_valcorr, c04_cases

HEADER = ('From Coq Require Import List NArith ZArith String.\n'
          'From NB Require Import Base.Json Diff.Codec Schema.Schema Gen.NbSchemas Gen.RenderFacts Merge.Render4.\n'
          'Import ListNotations.\nLocal Open Scope string_scope.\n'
          'Definition b (x : bool) : nat := if x then 1 else 0.\n'
          'Definition ob (o : option json) (j : json) : nat := match o with Some x => b (json_eqb x j) | None => 2 end.\n'
          'Definition r (o : option bool) : nat := match o with Some true => 1 | Some false => 0 | None => 2 end.\n')
ID_RE = re.compile(r'^[a-zA-Z0-9-_]+$')
J = c04_coq.coq_json
S = c04_coq.coq_str


def jl(l): return '[' + '; '.join(J(x) for x in l) + ']'


def kv(d): return '[' + '; '.join('(%s, %s)' % (S(k), J(d[k])) for k in sorted(d)) + ']'


def run_coq(exprs):
    """exprs: list of Gallina terms of type nat -> list of ints"""
    d = tempfile.mkdtemp(prefix='nbv_rd_')
    try:
        body = ''.join('Eval vm_compute in [\n ' + ';\n '.join(exprs[i:i + 20]) + '].\n' for i in range(0, len(exprs), 20))
        f = os.path.join(d, 'render_cases.v'); open(f, 'w').write(HEADER + body)
        p = subprocess.run(['timeout', '600', 'coqc', '-Q', c04_coq.COQ, 'NB', f], capture_output=True, text=True, cwd=d)
        if p.returncode != 0: raise RuntimeError((p.stderr + p.stdout)[-1200:])
        out = []
        for m in re.finditer(r'=\s*\[([^\]]*)\]\s*:\s*list nat', p.stdout):
            out += [int(x) for x in m.group(1).replace('\n', ' ').split(';') if x.strip()]
        if len(out) != len(exprs): raise RuntimeError('result count mismatch %d/%d' % (len(out), len(exprs)))
        return out
    finally:
        shutil.rmtree(d, ignore_errors=True)


def run(chk, tier):
    try:
        return _run(chk, tier)
    except Exception as e:
        import traceback
        chk.broken_obligation('correspondence:renderer-harness-exception', traceback.format_exc()[-900:])
        return {'render_cases': 0}


def _run(chk, tier):
    r = chk.rng
    ref = c04_valcorr.Ref(core.REPO)
    n = 12 if tier == 'quick' else 60
    texts = ['<<<<<<< local', '=======', '>>>>>>> remote', '', 'x\ny', 'caf' + chr(0xe9), '<b>&"q"</b>'] + [gennb.gen_line(r) for _ in range(n)]
    tasks = [{'op': 'render', 'f': 'cell_marker', 'text': t} for t in texts]
    tasks += [{'op': 'render', 'f': 'output_marker', 'text': t + '\n'} for t in texts]
    inl = []
    for i in range(n):
        minor = r.choice([0, 3, 4, 5, 5])
        used = set()
        base = [gennb.gen_cell(r, minor, used, rich=False) for _ in range(r.randint(0, 4))]
        start = r.randint(0, len(base))
        lv = [gennb.gen_cell(r, minor, used, rich=False) for _ in range(r.randint(1, 2))]
        rv = [gennb.gen_cell(r, minor, used, rich=False) for _ in range(r.randint(1, 2))]
        lrem = r.randint(0, len(base) - start); rrem = r.randint(0, len(base) - start)
        ld = [{'op': 'addrange', 'key': start, 'valuelist': lv}] + ([{'op': 'removerange', 'key': start, 'length': lrem}] if lrem else [])
        rd = [{'op': 'addrange', 'key': start, 'valuelist': rv}] + ([{'op': 'removerange', 'key': start, 'length': rrem}] if rrem else [])
        inl.append((minor, base, lv, rv, start, lrem, rrem))
        tasks.append({'op': 'render', 'f': 'inline_cells', 'base_cells': base, 'local_diff': ld, 'remote_diff': rd})
    # renderers reached through the merge itself
    hand = []
    for k in (4, 5):
        for name, b, l, rm in c04_cases.handmade(k):
            if name.startswith('insert_insert_similar') or name in ('metadata_metadata', 'attachment_attachment', 'attachment_added_both'):
                hand.append((name, k, b, l, rm))
                tasks.append({'op': 'merge', 'base': b, 'local': l, 'remote': rm, 'args': {'merge_strategy': 'inline'}})
    for name, b, l, rm in c04_cases.one_sided_id_triples():     # merged notebook declares 4.5
        hand.append(('insert_insert_similar_one_sided_id', 5, b, l, rm))
        tasks.append({'op': 'merge', 'base': b, 'local': l, 'remote': rm, 'args': {'merge_strategy': 'inline'}})
    from props import c04 as c04mod
    res = c04mod.run_tasks(tasks)
    exprs = []; what = []; nid = 0
    def add(e, w): exprs.append(e); what.append(w)
    def verdicts(model_term, impl_value, defn, w):
        """Coq validity of the model's value vs jsonschema validity of the implementation's, at every minor"""
        for k in range(6):
            add('r (validate_run nb_defs_%d (SRef %s) %s)' % (k, S('nb#/definitions/' + defn), model_term),
                (w, 'valid@4.%d' % k, ref.is_valid('nb%d:/definitions/%s' % (k, defn), impl_value)))
    i = 0
    for t in texts:
        x = res[i]; i += 1
        if 'ok' not in x: chk.broken_obligation('correspondence:renderer-call', {'f': 'cell_marker', 'result': x}); continue
        c = x['ok']; cid = c.get('id', '')
        if 'id' in c:
            nid += 1
            if not (isinstance(cid, str) and ID_RE.search(cid) and 1 <= len(cid) <= 64 and not cid.endswith('\n')):
                chk.broken_obligation('assumption:id_ok', {'generated id': cid})
        term = '(cell_marker true %s %s)' % (S(cid), S(t))
        add('b (json_eqb %s %s)' % (term, J(c)), (('cell_marker', t), 'eq', 1))
        verdicts(term, c, 'cell', ('cell_marker', t))
    for t in texts:
        x = res[i]; i += 1
        if 'ok' not in x: chk.broken_obligation('correspondence:renderer-call', {'f': 'output_marker', 'result': x}); continue
        term = '(output_marker %s)' % S(t + '\n')
        add('b (json_eqb %s %s)' % (term, J(x['ok'])), (('output_marker', t), 'eq', 1))
        verdicts(term, x['ok'], 'output', ('output_marker', t))
    for (minor, base, lv, rv, start, lrem, rrem) in inl:
        x = res[i]; i += 1
        if 'ok' not in x: chk.broken_obligation('correspondence:renderer-call', {'f': 'make_inline_cell_conflict', 'result': x}); continue
        cells = x['ok']
        nl = len(lv) + max(0, lrem - rrem)
        if not (isinstance(cells, list) and len(cells) > nl + 1 and all(isinstance(c, dict) for c in cells)):
            chk.broken_obligation('correspondence:renderer', {'renderer': 'make_inline_cell_conflict', 'implementation': cells}); continue
        ids = [cells[j].get('id', '') for j in (0, nl + 1, len(cells) - 1)]
        term = '(JArr (make_inline_cell_conflict (%s, %s, %s) %s %s %s %d %d %d))' % (S(ids[0]), S(ids[1]), S(ids[2]), jl(base), jl(lv), jl(rv), start, lrem, rrem)
        add('b (json_eqb %s %s)' % (term, J(cells)), (('make_inline_cell_conflict', {'base': base, 'lvals': lv, 'rvals': rv, 'start': start, 'lremove': lrem, 'rremove': rrem}), 'eq', 1))
    for (name, k, b_, l_, rm_) in hand:
        x = res[i]; i += 1
        if 'err' in x: chk.broken_obligation('correspondence:renderer-merge', {'triple': name, 'result': x}); continue
        decs = x['decisions']; merged = x['merged']
        if name.startswith('insert_insert_similar'):
            def one_cell(df): return isinstance(df, list) and len(df) == 1 and df[0].get('op') == 'addrange' and len(df[0]['valuelist']) == 1
            ds = [d for d in decs if d.get('common_path') == ['cells'] and d.get('action') == 'custom' and one_cell(d.get('local_diff'))
                  and one_cell(d.get('remote_diff')) and one_cell(d.get('custom_diff'))]
            if len(ds) != 1: chk.broken_obligation('correspondence:similar-insert', {'decisions': decs}); continue
            d = ds[0]
            lcell = d['local_diff'][0]['valuelist'][0]; rcell = d['remote_diff'][0]['valuelist'][0]
            # the keys touched by the local->remote diff of the two cells: differing values, or present on one side only
            keys = sorted(q for q in set(lcell) | set(rcell)
                          if (q in lcell) != (q in rcell) or json.dumps(lcell[q], sort_keys=True) != json.dumps(rcell[q], sort_keys=True))
            cell = d['custom_diff'][0]['valuelist'][0]
            term = '(similar_insert_cell %s %s [%s] %s)' % (kv(lcell), kv(rcell), '; '.join(S(q) for q in keys), S(cell.get('source', '')))
            add('ob %s %s' % (term, J(cell)), (('similar_insert_cell', {'lcell': lcell, 'rcell': rcell, 'keys': keys}), 'eq', 1))
            add('match %s with Some c => r (validate_run nb_defs_%d (SRef %s) c) | None => 2 end' % (term, k, S('nb#/definitions/cell')),
                (('similar_insert_cell', {'lcell': lcell, 'rcell': rcell, 'keys': keys}), 'valid@4.%d' % k, ref.is_valid('nb%d:/definitions/cell' % k, cell)))
        elif name == 'metadata_metadata':
            for base_md, merged_md in ((b_['metadata'], merged['metadata']), (b_['cells'][0]['metadata'], merged['cells'][0]['metadata'])):
                rec = merged_md.get('nbdime-conflicts')
                if not (isinstance(rec, dict) and set(rec) == {'local_diff', 'remote_diff'}):
                    chk.broken_obligation('correspondence:record-conflict', {'merged metadata': merged_md}); continue
                term = '(record_conflicts %s %s %s)' % (kv(base_md), jl(rec['local_diff']), jl(rec['remote_diff']))
                add('b (json_eqb %s %s)' % (term, J(merged_md)), (('record_conflicts', base_md), 'eq', 1))
        elif name in ('attachment_attachment', 'attachment_added_both'):
            att = b_['cells'][0].get('attachments', {}); key = 'image.png'
            lval = l_['cells'][0]['attachments'][key]; rval = rm_['cells'][0]['attachments'][key]
            if 'attachments' not in merged['cells'][0]:
                chk.broken_obligation('correspondence:rename-attachments', {'merged cell': merged['cells'][0]}); continue
            term = '(rename_attachments %s %s %s %s)' % (kv(att), S(key), J(lval), J(rval))
            add('b (json_eqb %s %s)' % (term, J(merged['cells'][0]['attachments'])), (('rename_attachments', att), 'eq', 1))
    try:
        out = run_coq(exprs)
    except RuntimeError as e:
        chk.broken_obligation('correspondence:renderer-run', str(e)[-900:])
        return {'render_cases': 0}
    mism = 0
    for v, (w, kind, expect) in zip(out, what):
        want = 1 if expect is True or expect == 1 else 0
        if v != want:
            mism += 1
            if mism <= 3:
                chk.broken_obligation('correspondence:renderer' if kind == 'eq' else 'witness-replay:model-and-implementation-disagree-on-validity',
                                      {'renderer': w[0], 'input': w[1], 'check': kind, 'implementation': expect, 'model': v})
    return {'render_cases': len(exprs), 'render_mismatches': mism, 'generated_ids_checked': nid}
