"""Runs nbdime (from PYTHONPATH) on a batch of tasks and records the heuristic oracles it consulted.
Invoked as:  /venv/bin/python implrun.py <tasks.json> <results.json>
Each task is a dict with an "op"; each result is {"ok": ...} or {"err": "<ExceptionClass>", "msg": ...},
plus "oracles" (recorded predicate / opcode tables) where the model needs them.
This file imports nothing from the rest of the harness, so that it sees only /repo's nbdime."""
import sys, json, copy, operator, traceback

def clean(x):
    if isinstance(x, dict): return {k: clean(v) for k, v in x.items()}
    if isinstance(x, (list, tuple)): return [clean(v) for v in x]
    return x

class Recorder:
    def __init__(self):
        self.reset()
    def reset(self):
        self.sim = {}; self.opcodes = {}; self.cell = {}; self.output = {}
    def dump(self):
        return {
            'sim': [[x, y, r] for (x, y), r in self.sim.items()],
            'opcodes': [[a, b, ops] for (a, b), ops in self.opcodes.items()],
            'cell': [[i, json.loads(x), json.loads(y), r] for (i, x, y), r in self.cell.items()],
            'output': [[i, json.loads(x), json.loads(y), r] for (i, x, y), r in self.output.items()],
        }

REC = Recorder()
TAGS = {'equal': 0, 'replace': 1, 'insert': 2, 'delete': 3}

def install_recorders():
    import nbdime.diffing.generic as G
    import nbdime.diffing.seq_difflib as SD
    import nbdime.diffing.notebooks as NB
    orig_sim = G.compare_strings_approximate
    def sim(x, y, *a, **kw):
        r = orig_sim(x, y, *a, **kw)
        if not a and not kw and isinstance(x, str) and isinstance(y, str):
            REC.sim[(x, y)] = bool(r)
        return r
    sim.__wrapped__ = orig_sim
    G.compare_strings_approximate = sim
    OrigSM = SD.SequenceMatcher
    class SM(OrigSM):
        def get_opcodes(self):
            ops = OrigSM.get_opcodes(self)
            if isinstance(self.a, str) and isinstance(self.b, str):
                REC.opcodes[(self.a, self.b)] = [[TAGS[t], a0, a1, b0, b1] for (t, a0, a1, b0, b1) in ops]
            return ops
    SD.SequenceMatcher = SM
    def wrap(table, fn, idx):
        def pred(x, y):
            r = fn(x, y)
            table[(idx, json.dumps(clean(x), sort_keys=True), json.dumps(clean(y), sort_keys=True))] = bool(r)
            return r
        pred.__wrapped__ = fn
        pred.__name__ = getattr(fn, '__name__', 'pred')
        return pred
    dv = NB.notebook_predicates.default_values
    for key, table in (('/cells', REC.cell), ('/cells/*/outputs', REC.output)):
        lst = dv.get(key)
        if lst is not None:
            for i, fn in enumerate(list(lst)):
                if not hasattr(fn, '__wrapped__'):
                    lst[i] = wrap(table, fn, i)

def exc_info(e):
    return {'err': type(e).__name__, 'msg': str(e)[:300],
            'tb': traceback.format_exc(limit=-4)[-1500:]}

def as_nb(x):
    import nbformat
    return nbformat.from_dict(copy.deepcopy(x))

def file_leg(a, b):
    """nbdiff --out d.json a.ipynb b.ipynb ; nbpatch -o out.ipynb a.ipynb d.json ; read out.ipynb back"""
    import tempfile, shutil, os, io, contextlib, nbformat
    import nbdime.nbdiffapp, nbdime.nbpatchapp
    d = tempfile.mkdtemp(prefix='nbv_file_')
    try:
        pa, pb, pd, po = [os.path.join(d, n) for n in ('a.ipynb', 'b.ipynb', 'd.json', 'out.ipynb')]
        for p, nb in ((pa, a), (pb, b)):
            with io.open(p, 'w', encoding='utf8') as f:
                json.dump(nb, f)
        buf = io.StringIO()
        with contextlib.redirect_stdout(buf):
            rc1 = nbdime.nbdiffapp.main([pa, pb, '--out', pd])
            rc2 = nbdime.nbpatchapp.main([pa, pd, '-o', po]) if rc1 == 0 else None
        if rc1 != 0 or rc2 != 0:
            return {'err': 'ExitStatus', 'msg': 'nbdiff=%r nbpatch=%r %s' % (rc1, rc2, buf.getvalue()[-300:])}
        with io.open(po, encoding='utf8') as f:
            raw = json.load(f)
        # sources/text may be stored as lists of lines on disk: normalise like nbformat.read does
        out = clean(nbformat.from_dict(nbformat.reads(json.dumps(raw), as_version=4)))
        return {'ok': out}
    except Exception as e:
        return exc_info(e)
    finally:
        shutil.rmtree(d, ignore_errors=True)

PROBES = ['/cells/*/source', '/cells/*/outputs', '/cells/*/attachments', '/metadata', '/cells/*/id', '/cells/*/metadata',
          '/cells/*/outputs/*/metadata', '/cells/*', '/cells/*/outputs/*', '/cells', '/metadata/custom', '/cells/*/metadata/tags']

def reuse_leg(patch_fn, fresh_a, d):
    """the diff object the differ returned, applied twice to fresh copies of the base, and what it looks like afterwards:
    a diff is a value -- applying it must not change it, and applying it again must give the same document"""
    out = {}
    try:
        out['first'] = clean(patch_fn(fresh_a(), d))
        out['second'] = clean(patch_fn(fresh_a(), d))
        out['diff_after'] = clean(d)
    except Exception as e:
        out['err'] = exc_info(e)
    return out

def differ_code(f):
    import nbdime.diffing.notebooks as N
    if f is N.diff_ignore: return ['DfIgnore']
    n = getattr(f, '__name__', None)
    names = {'diff': 'DfDiff', 'diff_single_outputs': 'DfSingleOutputs', 'diff_attachments': 'DfAttachments',
             'diff_string_lines': 'DfStringLines', 'diff_sequence_multilevel': 'DfSeqMultilevel'}
    if n in names: return [names[n]]
    if n == 'ignored_diff' and f.__closure__:
        cells = {k: c.cell_contents for k, c in zip(f.__code__.co_freevars, f.__closure__)}
        return ['DfIgnoreKeys', differ_code(cells['inner_differ']), list(cells['ignore_keys'])]
    return ['?', repr(f)]

def global_state():
    import nbdime.diffing.notebooks as N
    import nbdime.merging.generic as MG
    t = N.notebook_differs
    def look(p):
        if dict.__contains__(t, p): return dict.__getitem__(t, p)
        if p in t.default_values: return t.default_values[p]
        return t.default_factory()
    return {'lookups': [differ_code(look(p)) for p in PROBES],
            'pred_keys': sorted(dict.keys(N.notebook_predicates)),
            'merge_strings_recursion': bool(getattr(MG._merge_strings, 'recursion', False))}

def run_history(t):
    import argparse, nbdime
    import nbdime.diffing.notebooks as N
    from nbdime.merging.notebooks import merge_notebooks
    out = []
    for o in t['ops']:
        k = o['kind']
        try:
            if k == 'diff':
                d = nbdime.diff_notebooks(as_nb(o['a']), as_nb(o['b'])); r = {'ok': clean(d)}
            elif k == 'gdiff':
                d = nbdime.diff(copy.deepcopy(o['a']), copy.deepcopy(o['b'])); r = {'ok': clean(d)}
            elif k == 'merge':
                args = argparse.Namespace(merge_strategy=o.get('strategy', 'inline'), input_strategy=None, output_strategy=None,
                                          ignore_transients=True, log_level='INFO')
                m, decs = merge_notebooks(as_nb(o['base']), as_nb(o['local']), as_nb(o['remote']), args)
                r = {'ok': [clean(m), [bool(d.conflict) for d in decs]]}
            elif k == 'gmerge':
                # generic three-way merge of JSON documents under a caller-supplied strategy table (API use);
                # the documented strategy "fail" raises on a conflict by design
                from nbdime.merging.generic import decide_merge
                from nbdime.merging.decisions import apply_decisions
                from nbdime.utils import Strategies
                b0 = copy.deepcopy(o['base'])
                decs = decide_merge(b0, copy.deepcopy(o['local']), copy.deepcopy(o['remote']), Strategies(o.get('strategies') or {}))
                r = {'ok': [clean(apply_decisions(b0, decs)), [bool(d.conflict) for d in decs]]}
            elif k == 'targets':
                N.set_notebook_diff_targets(*o['shown']); r = {'ok': None}
            elif k == 'flags':
                # the command-line route to the same table: the parsed -s/-o/-a/-m/-i/-d (or -S/-O/...) flags of
                # nbdiff / nbmerge / nbdiff-web go through nbdime.args.process_diff_flags on every invocation of main()
                import nbdime.args as NA
                from nbdime.ignorables import diff_ignorables
                NA.process_diff_flags(argparse.Namespace(**{n: o['given'].get(n) for n in diff_ignorables})); r = {'ok': None}
            elif k == 'ignores':
                N.set_notebook_diff_ignores(o['mapping']); r = {'ok': None}
            elif k == 'reset':
                N.reset_notebook_differ(); r = {'ok': None}
            else:
                raise ValueError(k)
        except Exception as e:
            r = exc_info(e)
        r['state'] = global_state()
        out.append(r)
    return {'ok': out}

def make_config(spec):
    """A DiffConfig as a caller of the public API (nbdime.diff(a, b, config=...)) builds one: ONE predicate per list path, and
    that predicate is a SIMILARITY (items can match and still differ), so that the single-level list differ recurses into the
    matched items.  spec: kind = by_field (dicts that carry `field` match when the field values agree) | casefold (strings
    that agree up to case) | head (non-empty lists with the same first item) | mixed (all three); every other pair of items
    is compared strictly.  paths = None (the predicate serves every list) or the list paths it is registered for (all other
    lists keep the default strict predicate); seq = list | tuple (the container type of the predicate collection)."""
    from collections import defaultdict
    from nbdime.diffing.config import DiffConfig
    from nbdime.utils import strict_equals
    kind = spec['kind']; field = spec.get('field', 'id')
    def pred(x, y):
        if kind in ('by_field', 'mixed') and isinstance(x, dict) and isinstance(y, dict) and field in x and field in y:
            return strict_equals(x[field], y[field])
        if kind in ('casefold', 'mixed') and isinstance(x, str) and isinstance(y, str):
            return x.casefold() == y.casefold()
        if kind in ('head', 'mixed') and isinstance(x, list) and isinstance(y, list) and x and y:
            return strict_equals(x[0], y[0])
        return strict_equals(x, y)
    seq = tuple if spec.get('seq') == 'tuple' else list
    paths = spec.get('paths')
    if paths is None:
        predicates = defaultdict(lambda: seq([pred]))
    else:
        predicates = defaultdict(lambda: (strict_equals,), {p: seq([pred]) for p in paths})
    return DiffConfig(predicates=predicates)

def run_task(t):
    import nbdime
    from nbdime.diff_utils import to_clean_dicts, to_diffentry_dicts
    op = t['op']
    REC.cell.clear(); REC.output.clear(); REC.sim.clear(); REC.opcodes.clear()
    if op == 'diff':
        a, b = copy.deepcopy(t['a']), copy.deepcopy(t['b'])
        d = nbdime.diff(a, b)
        return {'ok': clean(d), 'oracles': REC.dump()}
    if op == 'patch':
        a = copy.deepcopy(t['a']); d = to_diffentry_dicts(copy.deepcopy(t['d']))
        return {'ok': clean(nbdime.patch(a, d))}
    if op == 'diff_patch':
        a, b = copy.deepcopy(t['a']), copy.deepcopy(t['b'])
        d = nbdime.diff(a, b)
        dj = clean(d)
        orc = REC.dump()
        try:
            p = clean(nbdime.patch(copy.deepcopy(t['a']), to_diffentry_dicts(json.loads(json.dumps(dj)))))
            pr = {'ok': p}
        except Exception as e:
            pr = exc_info(e)
        return {'ok': dj, 'patched': pr, 'oracles': orc, 'reuse': reuse_leg(nbdime.patch, lambda: copy.deepcopy(t['a']), d)}
    if op == 'diff_config':
        # the generic differ called through its public `config` argument (see make_config), and the patch round trip
        a, b = copy.deepcopy(t['a']), copy.deepcopy(t['b'])
        d = nbdime.diff(a, b, config=make_config(t['config']))
        dj = clean(d)
        try:
            pr = {'ok': clean(nbdime.patch(copy.deepcopy(t['a']), to_diffentry_dicts(json.loads(json.dumps(dj)))))}
        except Exception as e:
            pr = exc_info(e)
        return {'ok': dj, 'patched': pr}
    if op == 'nbdiff_patch':
        a, b = as_nb(t['a']), as_nb(t['b'])
        d = nbdime.diff_notebooks(a, b)
        dj = clean(d)
        orc = REC.dump()
        try:
            p = clean(nbdime.patch_notebook(as_nb(t['a']), to_diffentry_dicts(json.loads(json.dumps(dj)))))
            pr = {'ok': p}
        except Exception as e:
            pr = exc_info(e)
        out = {'ok': dj, 'patched': pr, 'oracles': orc, 'reuse': reuse_leg(nbdime.patch_notebook, lambda: as_nb(t['a']), d)}
        if t.get('files'):
            out['file'] = file_leg(t['a'], t['b'])
        return out
    if op == 'nbdiff_ignore':
        import nbdime.diffing.notebooks as N
        cats = ['sources', 'outputs', 'attachments', 'metadata', 'id', 'details']
        ignored = set(t['ignored']); mode = t['mode']
        # no reset here: each way of giving the options must by itself determine what is ignored,
        # whatever was configured earlier in this process (the Ignore mapping is incremental by design,
        # so that mode starts from the documented reset helper)
        if mode == 'cfg': N.reset_notebook_differ()
        try:
            if mode == 'api':
                N.set_notebook_diff_targets(sources='sources' not in ignored, outputs='outputs' not in ignored,
                                            attachments='attachments' not in ignored, metadata='metadata' not in ignored,
                                            identifier='id' not in ignored, details='details' not in ignored)
            elif mode in ('pos', 'neg'):
                import nbdime.nbdiffapp as A
                from nbdime.args import process_diff_flags
                letters = dict(zip(cats, 'soamid'))
                if mode == 'pos': flags = ['-' + letters[c] for c in cats if c not in ignored]
                else: flags = ['-' + letters[c].upper() for c in cats if c in ignored]
                ns = A._build_arg_parser().parse_args(flags + ['--no-color'])
                process_diff_flags(ns)
            elif mode == 'cfg':
                N.set_notebook_diff_ignores(t['mapping'])
            elif mode == 'api+cfg':
                # the order the server extension uses: the boolean selection first, then an Ignore mapping (key lists)
                first = set(t['first'])
                N.set_notebook_diff_targets(sources='sources' not in first, outputs='outputs' not in first,
                                            attachments='attachments' not in first, metadata='metadata' not in first,
                                            identifier='id' not in first, details='details' not in first)
                N.set_notebook_diff_ignores(t['mapping'])
            a, b = as_nb(t['a']), as_nb(t['b'])
            d = N.diff_notebooks(a, b)
            dj = clean(d)
            orc = REC.dump()
            try:
                p = clean(nbdime.patch_notebook(as_nb(t['a']), to_diffentry_dicts(json.loads(json.dumps(dj)))))
                pr = {'ok': p}
            except Exception as e:
                pr = exc_info(e)
            differs = {k: getattr(v, '__name__', repr(v)) for k, v in dict.items(N.notebook_differs)}
            out = {'ok': dj, 'patched': pr, 'table_keys': sorted(differs), 'oracles': orc}
            if t.get('render') and mode in ('pos', 'neg'):
                # what `nbdiff <flags> a b` prints: the renderer has its own suppression by path
                import io, re
                from nbdime.args import prettyprint_config_from_args
                from nbdime.prettyprint import pretty_print_notebook_diff
                try:
                    buf = io.StringIO()
                    pretty_print_notebook_diff('a.ipynb', 'b.ipynb', as_nb(t['a']), d, prettyprint_config_from_args(ns, out=buf))
                    out['render_headings'] = re.findall(r'^## (\w+(?: before)?) (/\S*?):?$', buf.getvalue(), re.M)
                except Exception as e:
                    out['render_error'] = exc_info(e)
            return out
        finally:
            pass
    if op == 'history':
        return run_history(t)
    if op == 'merge_decisions':
        from nbdime.merging.notebooks import decide_notebook_merge
        import argparse
        b, l, r = as_nb(t['base']), as_nb(t['local']), as_nb(t['remote'])
        args = argparse.Namespace(merge_strategy=t.get('strategy', 'inline'), input_strategy=t.get('input_strategy'), output_strategy=t.get('output_strategy'),
                                  ignore_transients=t.get('ignore_transients', True), log_level='INFO')
        decisions = decide_notebook_merge(b, l, r, args=args)
        return {'ok': clean(decisions)}
    raise ValueError('unknown op ' + op)

def main():
    tasks = json.load(open(sys.argv[1]))
    install_recorders()
    results = []
    for t in tasks:
        try:
            results.append(run_task(t))
        except Exception as e:
            results.append(exc_info(e))
    json.dump(results, open(sys.argv[2], 'w'))

if __name__ == '__main__':
    main()
