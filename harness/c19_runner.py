"""C19 implementation runner: executed by /venv/bin/python with PYTHONPATH=$NBDIME_REPO.

    c19_runner.py TASKS.json RESULTS.json

All tasks of one invocation run one after the other in ONE interpreter (so process-global state of nbdime -- the
_config_cache, argparse defaults, module tables -- is shared between them, as it is between the entry points listed
by `nbdime --config` or resolved by a long-running server).  A task with "fresh": true is what the harness sends
alone to a new interpreter.

Sandbox per task: four configuration directories of different priority
    cwd      the working directory                       (nbdime: path.insert(0, os.getcwd()))
    envpath  $JUPYTER_CONFIG_PATH                        (highest jupyter-level priority)
    user     $JUPYTER_CONFIG_DIR                         (user level)
    system   jupyter_core.paths.SYSTEM_CONFIG_PATH       (system level; the module constant is pointed at the sandbox,
                                                          as is ENV_CONFIG_PATH, so /etc/jupyter etc. are never read)
HOME, XDG_CONFIG_HOME, PYTHONUSERBASE point into the sandbox as well.

Tasks:
  {'op':'tables'}                       class tables by introspection (for case GENERATION only)
  {'op':'resolve', 'ep':..., 'files':{role: json}, 'pre':[argv before subcommand], 'argv':[...], 'cwd_at': role?}
        -> {'cfg': build_config(ep), 'cfg_none': build_config(ep, True), 'ns': parser namespace, 'ignore': mapping
            handed to set_notebook_diff_ignores, 'order': roles in the order nbdime searches them}
"""
import sys, os, json, tempfile, shutil, traceback

sys.path.insert(0, os.path.dirname(os.path.abspath(__file__)))
import c19_stubs

ROLES = ['cwd', 'envpath', 'user', 'system']
START_CWD = os.getcwd()


_SB = {}
def sandbox(root, files, cwd_at=None):
    """One sandbox per interpreter (directories are created once); per task only the nbdime_config.json files change.
    cwd_at: the role of the Jupyter configuration directory the program is started FROM (working directory == that
    directory, e.g. nbdiff run inside ~/.jupyter or /etc/jupyter); default: the separate 'cwd' directory."""
    if 'dirs' not in _SB:
        base = tempfile.mkdtemp(prefix='nbv_c19_')
        dirs = {}
        for r in ROLES + ['env', 'home', 'xdg', 'userbase']:
            d = os.path.join(base, r)
            os.makedirs(d)
            dirs[r] = os.path.realpath(d)
        _SB['dirs'] = dirs; _SB['base'] = base
        import atexit
        atexit.register(lambda: shutil.rmtree(base, ignore_errors=True))
    dirs = _SB['dirs']
    for r in ROLES:
        p = os.path.join(dirs[r], 'nbdime_config.json')
        if r in files:
            with open(p, 'w') as f:
                json.dump(files[r], f)
        elif os.path.exists(p):
            os.remove(p)
    os.environ.update(HOME=dirs['home'], XDG_CONFIG_HOME=dirs['xdg'], PYTHONUSERBASE=dirs['userbase'],
                      JUPYTER_CONFIG_DIR=dirs['user'], JUPYTER_CONFIG_PATH=dirs['envpath'],
                      JUPYTER_PREFER_ENV_PATH='0', JUPYTER_PLATFORM_DIRS='0')
    for k in ('JUPYTER_NO_CONFIG', 'JUPYTER_PATH', 'JUPYTER_DATA_DIR'):
        os.environ.pop(k, None)
    import jupyter_core.paths as P
    P.SYSTEM_CONFIG_PATH = [dirs['system']]
    P.ENV_CONFIG_PATH = [dirs['env']]
    os.chdir(dirs[cwd_at] if cwd_at in ROLES else dirs['cwd'])
    return dirs


def canon_value(v, dirs):
    """the default of `workdirectory` is 'the cwd at program start' -- rendered symbolically"""
    if isinstance(v, str) and v in (START_CWD, dirs['cwd'], os.path.realpath(START_CWD), dirs.get('<now>')): return '<cwd>'
    return v


def guarded(f):
    try:
        return {'ok': f()}
    except SystemExit as e:
        return {'err': 'SystemExit', 'msg': str(e.code)}
    except Exception as e:
        return {'err': type(e).__name__, 'msg': str(e)[:300]}


def resolve(task):
    import nbdime.config as C
    try:
        dirs = dict(sandbox(None, task.get('files', {}), task.get('cwd_at')))
        dirs['<now>'] = os.getcwd()
        ep = task['ep']
        out = {}
        from jupyter_core.paths import jupyter_config_path
        searched = [os.getcwd()] + jupyter_config_path()
        role_of = {dirs[r]: r for r in ROLES + ['env']}
        out['order'] = [role_of.get(os.path.realpath(p), '?' + p) for p in searched]
        fix = lambda d: {k: canon_value(v, dirs) for k, v in d.items()}
        for key, inc in (('cfg', False), ('cfg_none', True)):
            r = guarded(lambda: c19_stubs.plain(C.build_config(ep, inc)))
            if 'ok' in r: r['ok'] = fix(r['ok'])
            out[key] = r
        if ep in c19_stubs.EP_MAIN and not task.get('no_parser'):
            # the token '<cwd>' in argv stands for the working directory of this task (`--workdirectory $PWD`)
            argv = [os.getcwd() if a == '<cwd>' else a for a in task.get('argv', [])]
            r = c19_stubs.capture(ep, argv, task.get('pre', []))
            if 'ns' in r: r['ns'] = fix(r['ns'])
            out['parser'] = r
        return out
    finally:
        os.chdir(START_CWD)


def tables(task):
    import nbdime.config as C
    classes = {}
    for name in dir(C):
        o = getattr(C, name)
        if isinstance(o, type) and issubclass(o, C.NbdimeConfigurable):
            classes[o.__name__] = sorted(o.class_traits(config=True))
    eps = {ep: cls.__name__ for ep, cls in C.entrypoint_configurables.items()}
    # which dests each real parser defines itself (config lookup answering "no such entry point")
    import nbdime.args as A
    orig = A.get_defaults_for_argparse
    def no_config(entrypoint): raise ValueError(entrypoint)
    A.get_defaults_for_argparse = no_config
    dests = {}
    try:
        sandbox(None, {})
        for ep in c19_stubs.EP_MAIN:
            r = c19_stubs.capture(ep, [])
            dests[ep] = sorted(r.get('ns', {}))
    finally:
        A.get_defaults_for_argparse = orig
        os.chdir(START_CWD)
    return {'classes': classes, 'eps': eps, 'parser_dests': dests}


def main():
    tasks = json.load(open(sys.argv[1]))
    c19_stubs.install_stubs()
    out = []
    for t in tasks:
        try:
            if t['op'] == 'tables': out.append(tables(t))
            elif t['op'] == 'resolve': out.append(resolve(t))
            else: out.append({'err': 'BadTask'})
        except BaseException as e:
            out.append({'err': 'RunnerError', 'msg': traceback.format_exc()[-600:]})
    json.dump(out, open(sys.argv[2], 'w'))


if __name__ == '__main__':
    main()
