import { register } from 'node:module';
register('./c15_loader.mjs', import.meta.url);
